#!/bin/bash
# usage: check.sh <Cnn> <quick|thorough>   (VERIF_SEED, VERIF_BUDGET_S honoured)
# Builds the driver if needed, then runs the check of one property against
# /repo's current working tree.
D=$(cd "$(dirname "$0")" && pwd); cd "$D" || exit 2
export VERIF_DIR="$D"
export GOFLAGS=-mod=mod GOPROXY=off GOSUMDB=off GOTOOLCHAIN=local
export GOCACHE=${VERIF_GOCACHE:-/var/tmp/verif-gocache}
if [ ! -x bin/verif ] || [ -n "$(find sim/cmd/verif -newer bin/verif -name '*.go' 2>/dev/null)" ]; then
  mkdir -p bin
  (cd sim && /opt/veriftools/go1.26.8/bin/go build -o "$D/bin/verif" ./cmd/verif) || { echo "BUILD-ERROR: driver" >&2; exit 2; }
fi
exec bin/verif check "$1" --tier "${2:-quick}"
