#!/bin/bash
# Assemble a scratch build of the simulator worker from /repo's current working
# tree: <dir>/sim = copy of /verif/sim + generated goplugin/.  Prints nothing on
# success; exits 2 on any build trouble.
# usage: build_worker.sh <builddir> [race]
set -u
B="$1"; RACE="${2:-}"
export GOFLAGS=-mod=mod GOPROXY=off GOSUMDB=off GOTOOLCHAIN=local
export GOCACHE=${VERIF_GOCACHE:-/var/tmp/verif-gocache}
GO=/opt/veriftools/go1.26.8/bin/go
VD=${VERIF_DIR:-/verif}
REPO=${VERIF_REPO:-/repo}
OV=/var/tmp/verif-overlay
mkdir -p "$B" "$OV" || exit 2
# generate into a private directory, then move changed files into place
# atomically: several checks may be building at the same time
OVT="$OV.tmp.$$"
python3 $VD/sim/rtoverlay/gen.py /opt/veriftools/go1.26.8 "$OVT" >/dev/null || { rm -rf "$OVT"; echo "BUILD-ERROR: runtime overlay generation failed" >&2; exit 2; }
sed -i "s|$OVT|$OV|g" "$OVT/overlay.json"
for f in "$OVT"/*; do
  b=$(basename "$f")
  cmp -s "$f" "$OV/$b" 2>/dev/null || mv -f "$f" "$OV/$b"
done
rm -rf "$OVT"
rm -rf "$B/sim" && mkdir -p "$B/sim" || exit 2
(cd "$VD/sim" && tar cf - --exclude=goplugin --exclude='*.test' .) | (cd "$B/sim" && tar xf -) || exit 2
# go.mod mirrors the repository's own requirements (same dependency versions)
sed -e 's|^module .*|module simworld|' -e 's|^go [0-9.]*$|go 1.26|' -e '/^toolchain /d' "$REPO/go.mod" > "$B/sim/go.mod" || exit 2
printf '\nrequire github.com/anishathalye/porcupine v1.3.0\n' >> "$B/sim/go.mod"
cp "$REPO/go.sum" "$B/sim/go.sum" 2>/dev/null
[ -f $VD/sim/go.sum.extra ] && cat $VD/sim/go.sum.extra >> "$B/sim/go.sum"
if [ ! -x "$B/simgen" ]; then
  (cd "$B/sim" && $GO build -o "$B/simgen" ./cmd/simgen) || { echo "BUILD-ERROR: simgen" >&2; exit 2; }
fi
"$B/simgen" "$REPO" "$B/sim/goplugin" > "$B/simgen.log" || { echo "BUILD-ERROR: rewriting go-plugin failed" >&2; cat "$B/simgen.log" >&2; exit 2; }
cd "$B/sim" || exit 2
# grpc-go seeds its jitter/backoff generator from the wall clock at package
# init. Build against a copy of the module (outside /repo, /verif and the
# module cache, at a stable path so that the build cache keeps working) in
# which that one file draws from math/rand's top-level functions instead, which
# the runtime overlay feeds from the seeded stream.
GRPCVER=$($GO list -m -f '{{.Version}}' google.golang.org/grpc 2>/dev/null)
GRPCDIR=$($GO list -m -f '{{.Dir}}' google.golang.org/grpc 2>/dev/null)
[ -f "$GRPCDIR/internal/grpcrand/grpcrand.go" ] || { echo "BUILD-ERROR: cannot locate grpc-go's grpcrand.go" >&2; exit 2; }
# (the directory name carries the patch revision: builds from different
# revisions of /verif may run at the same time)
DEP=/var/tmp/verif-deps/grpc@$GRPCVER-p3
if [ ! -f "$DEP/.patched3" ]; then
  rm -rf "$DEP.tmp.$$" && mkdir -p /var/tmp/verif-deps && cp -r "$GRPCDIR" "$DEP.tmp.$$" && chmod -R u+w "$DEP.tmp.$$" || exit 2
  python3 $VD/sim/rtoverlay/grpcrand.py "$GRPCDIR/internal/grpcrand/grpcrand.go" "$DEP.tmp.$$/internal/grpcrand/grpcrand.go" || { echo "BUILD-ERROR: grpcrand patch" >&2; exit 2; }
  python3 $VD/sim/rtoverlay/grpcretry.py "$DEP.tmp.$$/stream.go" || { echo "BUILD-ERROR: grpc retry patch" >&2; exit 2; }
  touch "$DEP.tmp.$$/.patched3"
  rm -rf "$DEP"; mv "$DEP.tmp.$$" "$DEP" 2>/dev/null || rm -rf "$DEP.tmp.$$"
fi
printf '\nreplace google.golang.org/grpc => %s\n' "$DEP" >> go.mod
OVJ="$OV/overlay.json"
if [ "$RACE" = race ]; then
  $GO test -c -race -overlay "$OVJ" -o "$B/worker.race" ./worker > "$B/build.log" 2>&1 || { echo "BUILD-ERROR: worker (race) does not compile" >&2; head -50 "$B/build.log" >&2; exit 2; }
else
  $GO test -c -overlay "$OVJ" -o "$B/worker" ./worker > "$B/build.log" 2>&1 || { echo "BUILD-ERROR: worker does not compile" >&2; head -50 "$B/build.log" >&2; exit 2; }
fi
exit 0
