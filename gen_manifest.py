#!/usr/bin/env python3
"""Regenerates MANIFEST.json from the table below (one row per property)."""
import json

ENGINE = "simworld"
# id: (category, text, level_note, technique)   -- None: not claimed (reason)
T = "deterministic simulation with fault injection: real host+plugin code in one process under a seeded scheduler, simulated kernel and fake clock; seeded search over schedules/faults, ddmin-minimised replay files"
CHECKS = {}
NA = {}

def claim(pid, category, text, note, technique=T, design="DESIGN.md section 5"):
    CHECKS[pid] = dict(category=category, text=text, note=note, technique=technique, design=design)

exec(open('/verif/manifest_table.py').read())

props = [json.loads(l)["id"] for l in open('/verif/properties.jsonl')]
checks = []
for pid in props:
    if pid in CHECKS:
        c = CHECKS[pid]
        checks.append({
            "property_id": pid,
            "quick_cmd": f"./check.sh {pid} quick",
            "thorough_cmd": f"./check.sh {pid} thorough",
            "evidence_file": f"/verif/evidence/{pid}.json",
            "replay_cmd_template": "./bin/verif replay {path}",
            "engine": ENGINE,
            "level_claimed": {"category": c["category"], "text": c["text"], "design_ref": c["design"]},
            "level_note": c["note"],
            "technique": c["technique"],
        })
na = [{"property_id": pid, "reason": NA.get(pid, "check not built yet in this round; the property is a simulation target (see DESIGN.md section 5) and will be claimed once its workload and oracle exist")} for pid in props if pid not in CHECKS]
m = {
    "version": 1,
    "setup_cmd": "./setup.sh",
    "hooks": {
        "guard": "none in /repo - instrumentation is woven into a scratch copy of the working tree by /verif/sim/cmd/simgen at check time",
        "enable": "build_worker.sh copies /repo's working tree to /var/tmp/verif-build.*, redirects os/net/os-exec/... imports to the simulator shims, weaves a schedule point before every statement and builds it with go1.26.8 -overlay (seeded runtime)",
        "baseline_off_cmd": "cd /repo && go test -mod=mod -json -vet=off -count=1 -timeout 25m ./...",
        "source_commits": [],
        "add_only": True,
    },
    "engines": [{
        "name": ENGINE, "path": "/verif/sim",
        "serves_properties": sorted(CHECKS),
        "kind_free_text": "deterministic whole-system simulator for go-plugin: testing/synctest fake clock + seeded Go scheduler (runtime overlay) + simulated kernel (processes, pipes, sockets, fs, env, signals) + AST-woven schedule points and fault triggers; one run per OS process, 16 workers",
    }],
    "checks": checks,
    "notes": "exit 0 held / 1 VIOLATION (replay file under /verif/replays) / 2 build, watchdog or determinism trouble. Known findings: /verif/known_findings.jsonl. VERIF_SEED, VERIF_TIER, VERIF_BUDGET_S honoured.",
    "not_applicable": na,
}
json.dump(m, open('/verif/MANIFEST.json', 'w'), indent=1)
print("claimed", sorted(CHECKS), "unclaimed", [x["property_id"] for x in na])
