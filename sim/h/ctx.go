package h

import "context"

type ctxT = context.Context
