package h

import (
	"crypto/ecdsa"
	"crypto/elliptic"
	"crypto/rand"
	"crypto/x509"
	"crypto/x509/pkix"
	"encoding/base64"
	"encoding/json"
	"encoding/pem"
	"fmt"
	"math/big"
	"strings"
	"time"

	"simworld/k"
	"simworld/shim/simnet"
	"simworld/shim/simos"
)

// Script is a plugin that is not go-plugin: a byte script on stdout/stderr.
type Script struct {
	Listen string       `json:"listen,omitempty"` // "" none | unix | tcp
	Steps  []ScriptStep `json:"steps"`
	End    string       `json:"end,omitempty"` // stay (default) | exit:<code> | closeout | closeerr | closeboth
	// HolderNS > 0: before anything else the plugin starts a child process of
	// its own that inherits its stdout and stderr, does nothing and lives this
	// long (a shell wrapper's background job, a daemonising helper): the pipes
	// stay open after the plugin itself is gone.
	HolderNS int64 `json:"holder,omitempty"`
}

type ScriptStep struct {
	Stream  string `json:"s"`           // out | err
	Data    string `json:"d"`           // base64; {ADDR} {NET} are substituted in the decoded text
	DelayNS int64  `json:"w,omitempty"` // wait before writing
	Chunk   int    `json:"c,omitempty"` // write in pieces of this many bytes (0: one write)
	GapNS   int64  `json:"g,omitempty"` // wait between pieces
}

func Out(text string) ScriptStep {
	return ScriptStep{Stream: "out", Data: base64.StdEncoding.EncodeToString([]byte(text))}
}
func Err(text string) ScriptStep {
	return ScriptStep{Stream: "err", Data: base64.StdEncoding.EncodeToString([]byte(text))}
}

func (s ScriptStep) After(d time.Duration) ScriptStep { s.DelayNS = int64(d); return s }
func (s ScriptStep) Chunked(n int, gap time.Duration) ScriptStep {
	s.Chunk, s.GapNS = n, int64(gap)
	return s
}

func (s *Script) Encode() string {
	b, _ := json.Marshal(s)
	return string(b)
}

func DecodeScript(raw string) (*Script, error) {
	s := &Script{}
	err := json.Unmarshal([]byte(raw), s)
	return s, err
}

// ScriptState is what the oracle can read about a scripted plugin afterwards.
type ScriptState struct {
	Net, Addr  string
	Finished   bool // every step was written
	FinishedAt time.Duration
	WriteErr   error
	Conns      int
	StepsDone  int
	Launches   int
}

// InstallScript registers a scripted plugin program at path.
func (r *Run) InstallScript(path string, sc *Script) *ScriptState {
	st := &ScriptState{}
	r.W.RegisterProgram(path, []byte("#!script "+path), func() {
		st.Launches++
		if sc.HolderNS > 0 {
			hold := time.Duration(sc.HolderNS)
			r.W.RegisterProgram("/bin/holder", []byte("#!holder"), func() {
				time.Sleep(hold)
				simos.Exit(0)
			})
			cur := k.Cur()
			if _, err := r.W.Spawn("holder", "/bin/holder", []string{"/bin/holder"}, nil, nil, cur.Stdout, cur.Stderr, nil); err != nil {
				r.W.Note("script", "holder-spawn-failed", err.Error())
			}
		}
		if sc.Listen != "" {
			var ln simnet.Listener
			var err error
			if sc.Listen == "tcp" {
				ln, err = simnet.Listen("tcp", "127.0.0.1:0")
			} else {
				dir := simos.Getenv("PLUGIN_UNIX_SOCKET_DIR")
				var f *simos.File
				f, err = simos.CreateTemp(dir, "script")
				if err == nil {
					name := f.Name()
					f.Close()
					simos.Remove(name)
					ln, err = simnet.Listen("unix", name)
				}
			}
			if err == nil {
				st.Net, st.Addr = ln.Addr().Network(), ln.Addr().String()
				go func() {
					for {
						c, err := ln.Accept()
						if err != nil {
							return
						}
						st.Conns++
						_ = c // hold it open, say nothing
					}
				}()
			}
		}
		for _, step := range sc.Steps {
			if step.DelayNS > 0 {
				time.Sleep(time.Duration(step.DelayNS))
			}
			raw, _ := base64.StdEncoding.DecodeString(step.Data)
			text := strings.ReplaceAll(string(raw), "{ADDR}", st.Addr)
			text = strings.ReplaceAll(text, "{NET}", st.Net)
			f := simos.GetStdout()
			if step.Stream == "err" {
				f = simos.GetStderr()
			}
			data := []byte(text)
			if step.Chunk <= 0 {
				if _, err := f.Write(data); err != nil {
					st.WriteErr = err
				}
			} else {
				for len(data) > 0 {
					n := step.Chunk
					if n > len(data) {
						n = len(data)
					}
					if _, err := f.Write(data[:n]); err != nil {
						st.WriteErr = err
						break
					}
					data = data[n:]
					if step.GapNS > 0 && len(data) > 0 {
						time.Sleep(time.Duration(step.GapNS))
					}
				}
			}
			st.StepsDone++
		}
		st.Finished = true
		st.FinishedAt = r.W.Now()
		r.W.Note("script", "finished", fmt.Sprint(st.StepsDone))
		end, arg, _ := strings.Cut(sc.End, ":")
		switch end {
		case "exit":
			var code int
			fmt.Sscanf(arg, "%d", &code)
			simos.Exit(code)
		case "closeout":
			simos.GetStdout().Close()
		case "closeerr":
			simos.GetStderr().Close()
		case "closeboth":
			simos.GetStdout().Close()
			simos.GetStderr().Close()
		}
		select {}
	})
	return st
}

var _ = k.Y

// SelfSignedPEM returns a fresh self-signed localhost certificate and key.
func SelfSignedPEM() (certPEM, keyPEM []byte) {
	key, _ := ecdsa.GenerateKey(elliptic.P256(), rand.Reader)
	tmpl := &x509.Certificate{SerialNumber: big.NewInt(time.Now().UnixNano()), Subject: pkix.Name{CommonName: "localhost", Organization: []string{"HashiCorp"}}, DNSNames: []string{"localhost"},
		NotBefore: time.Now().Add(-time.Minute), NotAfter: time.Now().Add(time.Hour), IsCA: true, BasicConstraintsValid: true,
		ExtKeyUsage: []x509.ExtKeyUsage{x509.ExtKeyUsageClientAuth, x509.ExtKeyUsageServerAuth},
		KeyUsage:    x509.KeyUsageDigitalSignature | x509.KeyUsageCertSign | x509.KeyUsageKeyEncipherment | x509.KeyUsageKeyAgreement}
	der, _ := x509.CreateCertificate(rand.Reader, tmpl, tmpl, key.Public(), key)
	kb, _ := x509.MarshalECPrivateKey(key)
	certPEM = pem.EncodeToMemory(&pem.Block{Type: "CERTIFICATE", Bytes: der})
	keyPEM = pem.EncodeToMemory(&pem.Block{Type: "EC PRIVATE KEY", Bytes: kb})
	return
}

// PEMToRawB64 converts a PEM certificate to the raw-std-base64 DER form used
// in the handshake line.
func PEMToRawB64(certPEM []byte) string {
	blk, _ := pem.Decode(certPEM)
	if blk == nil {
		return ""
	}
	return base64.RawStdEncoding.EncodeToString(blk.Bytes)
}
