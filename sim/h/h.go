// Package h is the scaffolding shared by the per-property workloads: building
// host clients and plugin programs from a small configuration record, running
// host operations under simulated-time bounds, and collecting the verdict.
package h

import (
	"bytes"
	"crypto/tls"
	"fmt"
	"io"
	"net"
	"runtime/pprof"
	"sort"
	"strconv"
	"strings"
	"sync"
	"time"

	plugin "simworld/goplugin"
	"simworld/goplugin/runner"
	"simworld/k"
	"simworld/plugins"
	"simworld/shim/simexec"

	hclog "github.com/hashicorp/go-hclog"
	"google.golang.org/grpc"
)

// Violation is one oracle failure.
type Violation struct {
	Class  string `json:"class"`  // e.g. hang, host-panic, misroute, ...
	Sig    string `json:"sig"`    // stable signature: discriminating facts, no seeds/indices
	Detail string `json:"detail"` // free text
}

// Result is what a worker prints for one run.
type Result struct {
	Prop       string            `json:"prop"`
	Case       string            `json:"case,omitempty"`
	Seed       uint64            `json:"seed"`
	Verdict    string            `json:"verdict"` // ok | violation
	Violations []Violation       `json:"violations,omitempty"`
	Faults     map[string]int    `json:"faults,omitempty"`
	Probes     map[string]int    `json:"probes,omitempty"`
	SimNS      int64             `json:"sim_ns"`
	Events     int               `json:"events"`
	LogHash    string            `json:"loghash"`
	SchedSig   string            `json:"schedsig"`
	Nontrivial bool              `json:"nontrivial"`
	Choices    map[string]int64  `json:"choices,omitempty"`
	Log        []string          `json:"log,omitempty"`
	Sample     []string          `json:"sample,omitempty"`
	PassSeq    []string          `json:"passseq,omitempty"`
	SitePass   map[string]int    `json:"sitepass,omitempty"`
	EvPass     map[string]int    `json:"evpass,omitempty"`
	Info       map[string]string `json:"info,omitempty"`
	SitesHit   int               `json:"sites_hit,omitempty"`
	RtDraws    uint64            `json:"rt_draws,omitempty"`
	Spec       *k.Spec           `json:"spec,omitempty"` // echoed by the driver to later plan stages
}

// SpecOf is set by the driver when results are fed back to a later plan stage.
type Run struct {
	W    *k.World
	Spec *k.Spec
	Host *k.Proc

	mu    sync.Mutex
	viol  []Violation
	Info  map[string]string
	HLog  *bytes.Buffer // host hclog output
	nprog int
}

func NewRun(w *k.World) *Run {
	r := &Run{W: w, Spec: w.Spec, Info: map[string]string{}, HLog: &bytes.Buffer{}}
	return r
}

func (r *Run) Violate(class, sig, detail string) {
	r.mu.Lock()
	defer r.mu.Unlock()
	for _, v := range r.viol {
		if v.Class == class && v.Sig == sig {
			return
		}
	}
	if len(detail) > 4000 {
		detail = detail[:4000] + "..."
	}
	r.viol = append(r.viol, Violation{Class: class, Sig: sig, Detail: detail})
	r.W.Note("VIOLATION", class, sig)
}

func (r *Run) Violations() []Violation {
	r.mu.Lock()
	defer r.mu.Unlock()
	return append([]Violation(nil), r.viol...)
}

// Logger returns an hclog logger writing into the run's in-memory buffer.
func (r *Run) Logger(name string) hclog.Logger {
	return hclog.New(&hclog.LoggerOptions{Name: name, Level: hclog.Trace, Output: &lockedWriter{w: r.HLog}, DisableTime: true})
}

type lockedWriter struct {
	mu sync.Mutex
	w  io.Writer
}

func (l *lockedWriter) Write(p []byte) (int, error) {
	l.mu.Lock()
	defer l.mu.Unlock()
	return l.w.Write(p)
}

// ---- configuration ---------------------------------------------------------------

// Conf is the small configuration record from which both sides are built.
type Conf struct {
	Proto   string // netrpc | grpc
	Mux     bool   // host asks for gRPC broker multiplexing
	TLS     string // none | auto
	Launch  string // cmd | runner
	Name    string // simulated process name
	Path    string // program path
	Sh      *plugins.Shared
	Timeout time.Duration
	Managed bool
	// hooks for property-specific tweaks
	TweakClient func(*plugin.ClientConfig)
	TweakServe  func(*plugin.ServeConfig)
	PluginMain  func(serve func()) // wraps Serve in the plugin process (behaviours)
	SyncStdout  io.Writer
	SyncStderr  io.Writer
	Stderr      io.Writer
	Translate   bool   // custom runner with a mount-style address translation
	USC         string // "" no UnixSocketConfig | empty | tmpdir (TempDir=/run/hostsock, created here)
}

func (c Conf) String() string {
	s := c.Proto
	if k.W != nil && k.W.Spec != nil && k.W.Spec.P("pgoos", "") == "windows" {
		s += "+tcp"
	}
	if c.Mux {
		s += "+mux"
	}
	if c.TLS != "" && c.TLS != "none" {
		s += "+" + c.TLS
	}
	if c.Launch != "" && c.Launch != "cmd" {
		s += "+" + c.Launch
	}
	if c.Translate {
		s += "+xlate"
	}
	if c.USC != "" {
		s += "+usc-" + c.USC
	}
	return s
}

// ConfFromParams reads proto/mux/tls/launch from the spec parameters.
func (r *Run) ConfFromParams() Conf {
	return Conf{
		Proto:  r.Spec.P("proto", "grpc"),
		Mux:    r.Spec.P("mux", "0") == "1",
		TLS:    r.Spec.P("tls", "none"),
		Launch: r.Spec.P("launch", "cmd"),
		USC:    r.Spec.P("usc", ""),
		Timeout: func() time.Duration {
			d, _ := time.ParseDuration(r.Spec.P("starttimeout", "0"))
			return d
		}(),
	}
}

const PluginName = "cmd"

// PluginSet returns the plugin map for a protocol.
func PluginSet(proto string, sh *plugins.Shared) plugin.PluginSet {
	if proto == "grpc" {
		return plugin.PluginSet{PluginName: &plugins.GRPC{Sh: sh}}
	}
	// several names for the same implementation: concurrent dispenses use
	// different names, which makes each server object attributable
	return plugin.PluginSet{PluginName: &plugins.NetRPC{Sh: sh},
		"cmd1": &plugins.NetRPC{Sh: sh, Name: "cmd1/"}, "cmd2": &plugins.NetRPC{Sh: sh, Name: "cmd2/"}, "cmd3": &plugins.NetRPC{Sh: sh, Name: "cmd3/"},
		"fail1": &plugins.NetRPC{Sh: sh, Name: "fail1/", Fail: true}, "fail2": &plugins.NetRPC{Sh: sh, Name: "fail2/", Fail: true}}
}

// ServeConfig builds the plugin side.
func (r *Run) ServeConfig(c Conf) *plugin.ServeConfig {
	sc := &plugin.ServeConfig{
		HandshakeConfig: plugins.Handshake,
		Plugins:         PluginSet(c.Proto, c.Sh),
	}
	if c.Proto == "grpc" {
		sc.GRPCServer = plugin.DefaultGRPCServer
	}
	if c.TweakServe != nil {
		c.TweakServe(sc)
	}
	return sc
}

// InstallPlugin registers the plugin program at c.Path.
func (r *Run) InstallPlugin(c *Conf) {
	if c.Sh == nil {
		c.Sh = plugins.NewShared("v1/" + c.Proto)
	}
	if c.Path == "" {
		r.nprog++
		c.Path = fmt.Sprintf("/bin/plugin%d", r.nprog)
	}
	if c.Name == "" {
		c.Name = "plugin"
	}
	cc := *c
	r.W.RegisterProgram(c.Path, []byte("#!plugin "+c.Path), func() {
		serve := func() { plugin.Serve(r.ServeConfig(cc)) }
		if cc.PluginMain != nil {
			cc.PluginMain(serve)
			return
		}
		serve()
	})
}

// ClientConfig builds the host side.
func (r *Run) ClientConfig(c Conf) *plugin.ClientConfig {
	cfg := &plugin.ClientConfig{
		HandshakeConfig:     plugins.Handshake,
		Plugins:             PluginSet(c.Proto, plugins.NewShared("host")),
		AllowedProtocols:    []plugin.Protocol{plugin.ProtocolNetRPC, plugin.ProtocolGRPC},
		Logger:              r.Logger("host"),
		AutoMTLS:            c.TLS == "auto",
		GRPCBrokerMultiplex: c.Mux,
		Managed:             c.Managed,
		StartTimeout:        c.Timeout,
		SyncStdout:          c.SyncStdout,
		SyncStderr:          c.SyncStderr,
		Stderr:              c.Stderr,
	}
	cmd := simexec.Command(c.Path)
	cmd.SimName = c.Name
	// "pgoos=windows": the plugin process is a Windows-style one - go-plugin
	// gives it TCP listeners on 127.0.0.1 (main and brokered) instead of Unix
	// sockets
	pgoos := r.Spec.P("pgoos", "")
	if pgoos != "" {
		cmd.SimOpts = &k.SpawnOpts{GOOS: pgoos}
	}
	switch c.Launch {
	case "runner":
		tr := c.Translate
		cfg.RunnerFunc = func(l hclog.Logger, cmd2 *simexec.Cmd, tmpDir string) (runner.Runner, error) {
			cmd2.Path = c.Path
			cmd2.Args = []string{c.Path}
			cmd2.SimName = c.Name
			if pgoos != "" && !tr {
				cmd2.SimOpts = &k.SpawnOpts{GOOS: pgoos}
			}
			return NewSimRunner(r, cmd2, tmpDir, tr)
		}
	default:
		cfg.Cmd = cmd
	}
	switch c.USC {
	case "empty":
		cfg.UnixSocketConfig = &plugin.UnixSocketConfig{}
	case "tmpdir":
		r.W.Mkdir("/run")
		r.W.Mkdir("/run/hostsock")
		cfg.UnixSocketConfig = &plugin.UnixSocketConfig{TempDir: "/run/hostsock"}
	}
	if r.Spec.P("dialblock", "") == "1" && c.Proto == "grpc" {
		// a host that asks gRPC for blocking dials
		cfg.GRPCDialOptions = append(cfg.GRPCDialOptions, grpc.WithBlock())
	}
	if c.TweakClient != nil {
		c.TweakClient(cfg)
	}
	return cfg
}

func (r *Run) NewClient(c Conf) *plugin.Client { return plugin.NewClient(r.ClientConfig(c)) }

// ---- bounded operations ------------------------------------------------------------

// Outcome of a bounded host operation.
type Outcome struct {
	Err    error
	Hung   bool
	Took   time.Duration
	Val    any
	Inject time.Duration // delay injected by the simulator while it was outstanding
}

// Do runs f on its own host goroutine and waits at most bound (+ whatever
// delay the simulator injects meanwhile) of simulated time for it.
func (r *Run) Do(name string, bound time.Duration, f func() (any, error)) Outcome {
	type res struct {
		v   any
		err error
	}
	ch := make(chan res, 1)
	start := r.W.Now()
	inj0 := r.W.InjectedTotal()
	r.W.Note("inv", name, "")
	go k.Trap(func() {
		v, err := f()
		ch <- res{v, err}
	})
	deadline := bound
	for {
		t := time.NewTimer(deadline - (r.W.Now() - start))
		select {
		case x := <-ch:
			t.Stop()
			o := Outcome{Err: x.err, Val: x.v, Took: r.W.Now() - start, Inject: r.W.InjectedTotal() - inj0}
			r.W.Note("ret", name, ErrStr(x.err))
			return o
		case <-t.C:
			// extend by injected delay, once it stops growing we give up
			ext := bound + (r.W.InjectedTotal() - inj0)
			if ext > deadline {
				deadline = ext
				continue
			}
			r.W.Note("hung", name, "")
			return Outcome{Hung: true, Took: r.W.Now() - start, Inject: r.W.InjectedTotal() - inj0}
		}
	}
}

// Must runs Do and records a hang violation.
func (r *Run) DoNoHang(name string, bound time.Duration, sigCtx string, f func() (any, error)) Outcome {
	o := r.Do(name, bound, f)
	if o.Hung {
		r.Violate("hang", fmt.Sprintf("op=%s %s", opClass(name), sigCtx),
			fmt.Sprintf("%s still outstanding after %v simulated (bound %v + injected %v)\n%s", name, o.Took, bound, o.Inject, r.HostStacks("goplugin")))
	}
	return o
}

func opClass(name string) string {
	if i := strings.IndexAny(name, "(["); i > 0 {
		return name[:i]
	}
	return name
}

func ErrStr(err error) string {
	if err == nil {
		return "ok"
	}
	s := err.Error()
	if len(s) > 200 {
		s = s[:200]
	}
	return "err: " + s
}

// HostStacks returns the stacks of goroutines labelled with the host process
// whose frames mention substr.
func (r *Run) HostStacks(substr string) string {
	return StacksOf(r.Host.Name, substr)
}

// StacksOf filters the goroutine profile by process label and frame substring.
func StacksOf(proc, substr string) string {
	var buf bytes.Buffer
	pprof.Lookup("goroutine").WriteTo(&buf, 1)
	var out []string
	for _, blk := range strings.Split(buf.String(), "\n\n") {
		if !strings.Contains(blk, fmt.Sprintf("%q:%q", "simproc", proc)) {
			continue
		}
		if substr != "" && !strings.Contains(blk, substr) {
			continue
		}
		out = append(out, blk)
	}
	sort.Strings(out)
	return strings.Join(out, "\n\n")
}

// ---- simulated custom runner (RunnerFunc) ---------------------------------------------

// SimRunner is a runner.Runner over the simulated process table, optionally
// with a mount-style address translation: the plugin sees the socket dir as
// /plug<dir>, the host as <dir>.
type SimRunner struct {
	r      *Run
	cmd    *simexec.Cmd
	tmpDir string
	xlate  bool
	stdout io.ReadCloser
	stderr io.ReadCloser
	mu     sync.Mutex
	Kills  int
	Starts int
	// StartFailsAfterLaunch: Start launches the process, then returns an error.
	StartFailsAfterLaunch bool
}

func NewSimRunner(r *Run, cmd *simexec.Cmd, tmpDir string, xlate bool) (*SimRunner, error) {
	so, err := cmd.StdoutPipe()
	if err != nil {
		return nil, err
	}
	se, err := cmd.StderrPipe()
	if err != nil {
		return nil, err
	}
	r.W.Probe("runnerfunc.called")
	return &SimRunner{r: r, cmd: cmd, tmpDir: tmpDir, xlate: xlate, stdout: so, stderr: se}, nil
}

const plugSock = "/mnt/sock"
const plugRoot = "/plugroot"

func (s *SimRunner) Start(ctx ctxT) error {
	s.mu.Lock()
	s.Starts++
	s.mu.Unlock()
	if s.StartFailsAfterLaunch {
		// a runner whose Start launches the workload and then reports a failure
		// (e.g. a container that came up while a later set-up step failed)
		if err := s.cmd.Start(); err != nil {
			return err
		}
		return fmt.Errorf("runner: post-launch set-up failed")
	}
	if s.xlate {
		// container-style launch: the plugin has its own root and sees the
		// host's socket directory at /mnt/sock
		s.r.W.MkdirAs(plugRoot, "harness")
		s.r.W.MkdirAs(plugRoot+"/tmp", "harness")
		s.cmd.SimOpts = &k.SpawnOpts{Chroot: plugRoot, Mounts: []k.Mount{{From: plugSock, To: s.tmpDir}}}
		if s.r.Spec.P("pgoos", "") == "windows" {
			// ... and a network namespace of its own, its ports published on the
			// host 1000 higher, the host's visible inside 2000 higher
			s.cmd.SimOpts.GOOS, s.cmd.SimOpts.NetNS = "windows", "plug"
			s.r.W.PortMaps = []k.PortMap{{From: "", To: "plug", Shift: 1000}, {From: "plug", To: "", Shift: 2000}}
		}
		for i, kv := range s.cmd.Env {
			if strings.HasPrefix(kv, plugin.EnvUnixSocketDir+"=") {
				s.cmd.Env[i] = plugin.EnvUnixSocketDir + "=" + plugSock
			}
		}
	}
	return s.cmd.Start()
}
func (s *SimRunner) Diagnose(ctx ctxT) string { return "simulated runner: no diagnosis" }
func (s *SimRunner) Stdout() io.ReadCloser    { return s.stdout }
func (s *SimRunner) Stderr() io.ReadCloser    { return s.stderr }
func (s *SimRunner) Name() string             { return s.cmd.Path }
func (s *SimRunner) Wait(ctx ctxT) error      { return s.cmd.Wait() }
func (s *SimRunner) Kill(ctx ctxT) error {
	s.mu.Lock()
	s.Kills++
	s.mu.Unlock()
	// like a container-style runner, honour the context: a cancelled or
	// expired context means the request is not carried out
	if err := ctx.Err(); err != nil {
		s.r.W.Probe("runner.kill-with-dead-context")
		return err
	}
	if s.cmd.Process == nil {
		return nil
	}
	err := s.cmd.Process.Kill()
	if err == k.ErrProcessDone {
		return nil
	}
	return err
}
func (s *SimRunner) ID() string {
	if s.cmd.Process == nil {
		return ""
	}
	return fmt.Sprint(s.cmd.Process.Pid)
}

// shiftPort adds d to the port of a host:port address.
func shiftPort(a string, d int) string {
	hst, port, err := net.SplitHostPort(a)
	if err != nil {
		return a
	}
	pn, _ := strconv.Atoi(port)
	return net.JoinHostPort(hst, strconv.Itoa(pn+d))
}

func (s *SimRunner) PluginToHost(n, a string) (string, string, error) {
	if s.xlate && n == "tcp" {
		// the container's ports are published on the host 1000 higher
		s.r.W.Probe("xlate.plugin2host.tcp")
		return n, shiftPort(a, 1000), nil
	}
	if !s.xlate || n != "unix" {
		return n, a, nil
	}
	s.r.W.Probe("xlate.plugin2host")
	if a == plugSock || strings.HasPrefix(a, plugSock+"/") {
		return n, s.tmpDir + strings.TrimPrefix(a, plugSock), nil
	}
	return n, plugRoot + a, nil
}
func (s *SimRunner) HostToPlugin(n, a string) (string, string, error) {
	if s.xlate && n == "tcp" {
		// the host's ports are reachable from inside the container 2000 higher
		s.r.W.Probe("xlate.host2plugin.tcp")
		return n, shiftPort(a, 2000), nil
	}
	if !s.xlate || n != "unix" {
		return n, a, nil
	}
	s.r.W.Probe("xlate.host2plugin")
	if a == s.tmpDir || strings.HasPrefix(a, s.tmpDir+"/") {
		return n, plugSock + strings.TrimPrefix(a, s.tmpDir), nil
	}
	return "", "", fmt.Errorf("host path %q is not visible to the plugin", a)
}

// TLSNone is a helper for static TLS configs (unused by default).
var _ = tls.VersionTLS12
var _ grpc.DialOption

// HostDialPing dials brokered id from the host side of a dispensed client and
// returns the identity answered through it.
func HostDialPing(cmd plugins.Cmd, id uint32) (string, error) {
	switch c := cmd.(type) {
	case *plugins.RPCClient:
		conn, err := c.Broker.Dial(id)
		if err != nil {
			return "", err
		}
		defer conn.Close()
		return plugins.EchoOnce(conn, id, 64)
	case *plugins.GRPCClient:
		conn, err := c.Broker.Dial(id)
		if err != nil {
			return "", err
		}
		defer conn.Close()
		return plugins.PingConn(conn, 20*time.Second)
	}
	return "", fmt.Errorf("unknown client type %T", cmd)
}

// HostAccept makes the host accept and serve brokered id in the background.
func HostAccept(r *Run, cmd plugins.Cmd, id uint32) {
	switch c := cmd.(type) {
	case *plugins.RPCClient:
		go k.Trap(func() {
			conn, err := c.Broker.Accept(id)
			r.W.Note("ret", fmt.Sprintf("host.Accept(%d)", id), ErrStr(err))
			if err != nil {
				return
			}
			plugins.ServeEcho(conn, id)
		})
	case *plugins.GRPCClient:
		go k.Trap(func() {
			c.Broker.AcceptAndServe(id, func(opts []grpc.ServerOption) *grpc.Server {
				return plugins.NewPingPongServer(opts, id, nil)
			})
		})
	}
}

// HostDialEcho dials brokered id from the host and runs one echo / ping.
func HostDialEcho(cmd plugins.Cmd, id uint32, size int) (string, error) {
	switch c := cmd.(type) {
	case *plugins.RPCClient:
		conn, err := c.Broker.Dial(id)
		if err != nil {
			return "", err
		}
		defer conn.Close()
		return plugins.EchoOnce(conn, id, size)
	}
	return HostDialPing(cmd, id)
}

// HostAcceptWait accepts brokered id on the host synchronously (net/rpc: the
// Accept call itself; gRPC: the listener is set up and served in the
// background) and reports the error.
func HostAcceptWait(r *Run, cmd plugins.Cmd, id uint32) error {
	switch c := cmd.(type) {
	case *plugins.RPCClient:
		conn, err := c.Broker.Accept(id)
		if err != nil {
			return err
		}
		go k.Trap(func() { plugins.ServeEcho(conn, id) })
		return nil
	case *plugins.GRPCClient:
		HostAccept(r, cmd, id)
		return nil
	}
	return fmt.Errorf("unknown client type %T", cmd)
}

// RawProc is a process spawned directly by the harness (no plugin.Client).
type RawProc struct {
	P      *k.Proc
	Stdout *LockedBuf
	Stderr *LockedBuf
}

type LockedBuf struct {
	mu sync.Mutex
	b  bytes.Buffer
}

func (l *LockedBuf) Write(p []byte) (int, error) {
	l.mu.Lock()
	defer l.mu.Unlock()
	return l.b.Write(p)
}
func (l *LockedBuf) Bytes() []byte {
	l.mu.Lock()
	defer l.mu.Unlock()
	return append([]byte(nil), l.b.Bytes()...)
}
func (l *LockedBuf) String() string { return string(l.Bytes()) }

// SpawnRaw starts program path with exactly env, draining its stdout/stderr
// into buffers on host goroutines.
func (r *Run) SpawnRaw(name, path string, env []string, opts *k.SpawnOpts) (*RawProc, error) {
	or, ow := r.W.NewPipe(r.Host, "stdout."+name, 64<<10)
	er, ew := r.W.NewPipe(r.Host, "stderr."+name, 64<<10)
	p, err := r.W.Spawn(name, path, []string{path}, env, nil, ow, ew, opts)
	ow.Close()
	ew.Close()
	if err != nil {
		or.Close()
		er.Close()
		return nil, err
	}
	rp := &RawProc{P: p, Stdout: &LockedBuf{}, Stderr: &LockedBuf{}}
	go io.Copy(rp.Stdout, or)
	go io.Copy(rp.Stderr, er)
	return rp, nil
}

// WatchPlaintext installs a wire sniffer on every socket of the run: if the
// configuration asks for transport security, no protocol bytes may ever appear
// in clear on any socket - neither the HTTP/2 client preface (gRPC, also inside
// yamux frames) nor net/rpc method names.
func (r *Run) WatchPlaintext(ctx string) { r.WatchWire(ctx, false) }

// MuxStreams is what the wire sniffer learnt about yamux streams carried in
// clear framing on a socket (the multiplexed gRPC broker's main connection).
type MuxStreams struct {
	mu      sync.Mutex
	Streams map[string]bool // "<socket>/<stream id>" seen
	TLS     int             // first payloads that were a TLS handshake record
	Clear   int             // first payloads that were anything else
}

func (m *MuxStreams) Counts() (streams, tls, clear int) {
	m.mu.Lock()
	defer m.mu.Unlock()
	return len(m.Streams), m.TLS, m.Clear
}

// WatchWire is WatchPlaintext plus, with mux set, an on-path observer of the
// yamux framing: with transport security configured, every stream's first
// payload in either direction must be a TLS handshake record - a stream that
// starts with anything else is an unauthenticated connection.
func (r *Run) WatchWire(ctx string, mux bool) *MuxStreams {
	markers := [][]byte{[]byte("PRI * HTTP/2.0"), []byte("Plugin.Do"), []byte("Control.Ping"), []byte("Dispenser.Dispense")}
	tails := map[string][]byte{}
	ms := &MuxStreams{Streams: map[string]bool{}}
	type dirState struct {
		buf    []byte
		notMux bool
		seen   map[uint32]bool // streams whose first payload in this direction was classified
	}
	dirs := map[string]*dirState{}
	var mu sync.Mutex
	r.W.OnConnWrite = func(e *k.Endpoint, data []byte) {
		if o := e.Owner(); o != nil && o.Name == "intruder" {
			return // what an attacker sends in clear is its own business
		}
		mu.Lock()
		defer mu.Unlock()
		key := e.Name()
		buf := append(append([]byte(nil), tails[key]...), data...)
		for _, m := range markers {
			if bytes.Contains(buf, m) {
				r.Violate("plaintext-on-the-wire", ctx+" marker="+string(m), fmt.Sprintf("socket %s (%s) carried %q in clear although transport security is configured", key, e.ListenerKey(), m))
			}
		}
		if len(buf) > 32 {
			buf = buf[len(buf)-32:]
		}
		tails[key] = buf
		if !mux {
			return
		}
		d := dirs[key]
		if d == nil {
			d = &dirState{seen: map[uint32]bool{}}
			dirs[key] = d
		}
		if d.notMux {
			return
		}
		d.buf = append(d.buf, data...)
		for len(d.buf) >= 12 {
			// yamux header: version, type, flags(2), stream id(4), length(4)
			if d.buf[0] != 0 || d.buf[1] > 3 {
				d.notMux, d.buf = true, nil
				return
			}
			typ := d.buf[1]
			id := uint32(d.buf[4])<<24 | uint32(d.buf[5])<<16 | uint32(d.buf[6])<<8 | uint32(d.buf[7])
			n := int(uint32(d.buf[8])<<24 | uint32(d.buf[9])<<16 | uint32(d.buf[10])<<8 | uint32(d.buf[11]))
			if typ != 0 {
				d.buf = d.buf[12:]
				continue
			}
			if len(d.buf) < 12+n {
				if n > 0 && len(d.buf) >= 12+3 && !d.seen[id] {
					// enough of the payload to classify already
				} else {
					return
				}
			}
			if n > 0 && !d.seen[id] {
				d.seen[id] = true
				pl := d.buf[12:]
				if len(pl) > n {
					pl = pl[:n]
				}
				ms.mu.Lock()
				ms.Streams[fmt.Sprintf("%s/%d", e.ListenerKey(), id)] = true
				if len(pl) >= 2 && pl[0] == 0x16 && pl[1] == 0x03 {
					ms.TLS++
				} else {
					ms.Clear++
					show := pl
					if len(show) > 24 {
						show = show[:24]
					}
					r.Violate("unauthenticated-stream", ctx, fmt.Sprintf("socket %s: multiplexed stream %d starts with %q instead of a TLS handshake although transport security is configured", key, id, show))
				}
				ms.mu.Unlock()
			}
			if len(d.buf) < 12+n {
				return
			}
			d.buf = d.buf[12+n:]
		}
	}
	return ms
}

// HostDialEchoLate dials brokered id (net/rpc), echoes size bytes, waits, and
// echoes late bytes on the same connection.
func HostDialEchoLate(cmd plugins.Cmd, id uint32, size int, wait time.Duration, late int) (string, error) {
	c, ok := cmd.(*plugins.RPCClient)
	if !ok {
		return HostDialEcho(cmd, id, size)
	}
	conn, err := c.Broker.Dial(id)
	if err != nil {
		return "", err
	}
	defer conn.Close()
	ans, err := plugins.EchoOnce(conn, id, size)
	if err != nil {
		return ans, err
	}
	time.Sleep(wait)
	if _, err := plugins.EchoOnce(conn, id, late); err != nil {
		return ans, fmt.Errorf("late use of the dialled connection: %w", err)
	}
	return ans, nil
}

// HostAcceptOwn accepts brokered id on the host with Broker.Accept and serves
// it with a server of the harness's own, which the returned function stops
// (closing the listener).
func HostAcceptOwn(cmd plugins.Cmd, id uint32) (stop func(), err error) {
	gc, ok := cmd.(*plugins.GRPCClient)
	if !ok {
		return nil, fmt.Errorf("HostAcceptOwn: gRPC only")
	}
	ln, err := gc.Broker.Accept(id)
	if err != nil {
		return nil, err
	}
	srv := plugins.NewPingPongServer(nil, id, nil)
	go k.Trap(func() { srv.Serve(ln) })
	return srv.Stop, nil
}

// HostAcceptOwnLn is HostAcceptOwn that also hands out the listener.
func HostAcceptOwnLn(cmd plugins.Cmd, id uint32) (stop func(), ln net.Listener, err error) {
	gc, ok := cmd.(*plugins.GRPCClient)
	if !ok {
		return nil, nil, fmt.Errorf("HostAcceptOwnLn: gRPC only")
	}
	ln, err = gc.Broker.Accept(id)
	if err != nil {
		return nil, nil, err
	}
	srv := plugins.NewPingPongServer(nil, id, nil)
	go k.Trap(func() { srv.Serve(ln) })
	return srv.Stop, ln, nil
}
