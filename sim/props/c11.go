package props

import (
	"bytes"
	"encoding/hex"
	"errors"
	"fmt"
	"io"
	plugin "simworld/goplugin"
	"sync"
	"sync/atomic"
	"time"

	"simworld/h"
	"simworld/k"
	"simworld/plugins"
	"simworld/shim/simos"
)

// C11: synced stdout/stderr arrive byte-exact, in order, on the right stream.

var c11Sizes = []int{0, 1, 100, 1023, 1024, 1025, 2048, 4095, 4096, 4097, 10000, 70000}

// pattern bytes: stdout and stderr carry different, position-dependent content
func c11Fill(stream string, off, n int) []byte {
	b := make([]byte, n)
	salt := uint32(0x9e3779b9)
	if stream == "err" {
		salt = 0x85ebca6b
	}
	for i := range b {
		x := uint32(off+i)*2654435761 ^ salt
		b[i] = byte(x >> 13)
	}
	return b
}

func init() {
	Register(&Prop{ID: "C11",
		Meta: Meta{Level: "exploration",
			Rule: "real Client+Serve (net/rpc, gRPC, gRPC+mux; TLS none/AutoMTLS); the plugin's own code writes a drawn sequence of 1-10 chunks (sizes 0..70000 around the 1KiB chunk and 4KiB buffer boundaries, position-dependent arbitrary bytes, different on the two streams) to its process stdout/stderr after serving began but before the host attached (host attaches 0-3s later), then a second drawn sequence through RPC calls interleaved with other RPC traffic; seeded schedule noise focused on grpc_stdio.go/stream.go/rpc_*.go, socket and pipe short reads, small socket buffers and latency. Oracle: at several earlier observations each sync writer holds a prefix of that stream's expected bytes, and at quiescence with the connection alive it equals them exactly (nothing lost, duplicated, reordered or crossed); plus one failing or short Write of a sync writer: the other stream still arrives exactly, the failing one holds its own bytes in order apart from one gap"},
		Plan: func(tier string, seed uint64, stage int, prev []*h.Result) []*k.Spec {
			if stage > 0 {
				return nil
			}
			var out []*k.Spec
			if tier != "selftest" {
				for _, c := range c03Confs {
					for _, sz := range []string{"1", "1024", "1025", "4096", "4097", "70000"} {
						for _, when := range []string{"early", "late"} {
							out = append(out, sp("C11", fmt.Sprintf("fixed/%s/%s/%s", confLabel(c), sz, when), seed, cp(c, "fixed", sz, "when", when)))
						}
					}
				}
			}
			if tier != "selftest" {
				// one Write of a sync writer fails or is short
				for _, c := range c03Confs[:3] {
					for _, bad := range []string{"out", "err"} {
						for _, at := range []string{"1", "2", "4"} {
							for _, acc := range []string{"0", "3", "200"} {
								out = append(out, sp("C11", fmt.Sprintf("writer-error/%s/%s/%s/%s", confLabel(c), bad, at, acc), seed, cp(c, "werr", bad, "failat", at, "accept", acc)))
							}
						}
					}
				}
			}
			if tier != "selftest" {
				// a second host attaches after the first one's connection dropped
				ns := 24
				if tier == "thorough" {
					ns = 2000
				}
				for v := 0; v < ns; v++ {
					s := sp("C11", fmt.Sprintf("second-host/%d", v), seed+uint64(v)*7919, P("proto", "grpc", "secondhost", "1", "astalled", []string{"", "", "1"}[v%3]))
					if v >= 8 {
						s.HotPermille, s.DelayClass, s.Focus = 50, "tiny", "grpc_stdio.go"
					}
					out = append(out, s)
				}
			}
			n := 800
			if tier == "thorough" {
				n = 200000
			}
			if tier == "selftest" {
				n = 6
			}
			out = append(out, seeded("C11", seed, n, func(i int, sd uint64) *k.Spec {
				s := &k.Spec{Seed: sd, Params: cp(c03Confs[int(k.H(sd, "conf", 0)%6)])}
				swarm(s, "grpc_stdio.go,stream.go,rpc_server.go:RPCServer.ServeConn,rpc_client.go,server.go:Serve")
				if s.DelayClass == "big" {
					s.DelayClass = "mid"
				}
				s.Faults = []string{"", "conn.chunk,pipe.chunk", "conn.latency,conn.chunk", "sock.smallbuf,conn.chunk,pipe.chunk"}[k.H(sd, "faults", 0)%4]
				return s
			})...)
			return out
		},
		Run: runC11,
	})
}

// failBuf is a sync writer one of whose Write calls fails, accepting only
// the first `accept` bytes of that call.
type failBuf struct {
	mu     sync.Mutex
	b      bytes.Buffer
	calls  int
	failAt int // 1-based index of the failing call; 0: never
	accept int
	failed bool
}

func (s *failBuf) Write(p []byte) (int, error) {
	s.mu.Lock()
	defer s.mu.Unlock()
	s.calls++
	if s.calls == s.failAt {
		n := s.accept
		if n > len(p) {
			n = len(p)
		}
		s.b.Write(p[:n])
		s.failed = true
		return n, errors.New("sync writer: no space left")
	}
	return s.b.Write(p)
}
func (s *failBuf) Bytes() []byte {
	s.mu.Lock()
	defer s.mu.Unlock()
	return append([]byte(nil), s.b.Bytes()...)
}

// runC11WriterError: one Write of one of the host's sync writers fails (or is
// short). That stream may lose the rest of the rejected chunk (net/rpc: the
// rest of the stream - its copy loop ends); the OTHER stream must still arrive
// byte for byte, and neither writer may ever see a byte of the other stream.
func runC11WriterError(r *h.Run) {
	w := r.W
	c := r.ConfFromParams()
	bad := r.Spec.P("werr", "out")
	failAt := r.Spec.PI("failat", 2)
	accept := r.Spec.PI("accept", 0)
	bufs := map[string]*failBuf{"out": {}, "err": {}}
	bufs[bad].failAt, bufs[bad].accept = failAt, accept
	c.SyncStdout, c.SyncStderr = bufs["out"], bufs["err"]
	ctx := fmt.Sprintf("conf=%s sync-writer-error stream=%s accepted=%d", c.String(), bad, accept)
	r.InstallPlugin(&c)
	cl := r.NewClient(c)
	o := r.DoNoHang("Client+Dispense", 120*time.Second, ctx, func() (any, error) {
		cp, err := cl.Client()
		if err != nil {
			return nil, err
		}
		return cp.Dispense(h.PluginName)
	})
	if o.Err != nil || o.Hung {
		r.Violate("setup", "connect failed "+ctx, fmt.Sprint(o.Err))
		return
	}
	cmd := o.Val.(plugins.Cmd)
	exp := map[string][]byte{"out": nil, "err": nil}
	sizes := []int{40, 25, 700, 300, 9, 11, 1500, 1024, 5, 3}
	for i, n := range sizes {
		st := []string{"out", "err"}[i%2]
		if bad == "err" {
			st = []string{"err", "out"}[i%2]
		}
		data := c11Fill(st, len(exp[st]), n)
		exp[st] = append(exp[st], data...)
		opn := map[string]string{"out": "stdout", "err": "stderr"}[st]
		ro := r.DoNoHang(fmt.Sprintf("Do(%s,%d)", opn, n), 90*time.Second, ctx, func() (any, error) { return cmd.Do(opn, hex.EncodeToString(data)) })
		if ro.Hung {
			return
		}
		// let this chunk reach the host before the next one is written (the
		// order in which the two streams' chunks arrive is then the order written)
		time.Sleep(200 * time.Millisecond)
	}
	time.Sleep(5 * time.Second)
	if !bufs[bad].failed {
		w.Probe("werr.writer-never-failed")
	} else {
		w.Probe("werr.writer-failed")
	}
	good := other(bad)
	if w.FaultCount("conn.rst") == 0 {
		if got := bufs[good].Bytes(); !bytes.Equal(got, exp[good]) {
			r.Violate("stdio-corrupt", ctx+" other-stream", "the stream whose writer never failed: "+describeDiff(got, exp[good], exp[bad]))
		}
		got, e := bufs[bad].Bytes(), exp[bad]
		i := firstDiff(got, e)
		rest := got[min(i, len(got)):]
		okGap := len(rest) == 0
		for j := i; !okGap && j+len(rest) <= len(e); j++ {
			if bytes.Equal(e[j:j+len(rest)], rest) {
				okGap = true
			}
		}
		if !okGap {
			r.Violate("stdio-corrupt", ctx+" failing-stream", "apart from one gap (the rejected bytes) the failing stream's writer must hold that stream's bytes in order: "+describeDiff(got, e, exp[good]))
		}
	}
	r.DoNoHang("Kill", 120*time.Second, ctx, func() (any, error) { cl.Kill(); return nil, nil })
}

// gateWriter passes writes through until armed, then blocks them until released.
type gateWriter struct {
	w       io.Writer
	mu      sync.Mutex
	armed   bool
	release chan struct{}
}

func (g *gateWriter) arm() { g.mu.Lock(); g.armed = true; g.mu.Unlock() }
func (g *gateWriter) Write(p []byte) (int, error) {
	g.mu.Lock()
	a := g.armed
	g.mu.Unlock()
	if a {
		<-g.release
	}
	return g.w.Write(p)
}

type c11Write struct {
	stream string
	size   int
}

// runC11SecondHost: the first host's connection drops without any shutdown of
// the plugin (host crash, upgrade: the reattach case), the plugin keeps
// writing, a second host attaches: what was written while nobody was attached
// is "data written before the host has attached" for the second host.
func runC11SecondHost(r *h.Run) {
	w := r.W
	c := r.ConfFromParams()
	c.Proto = "grpc"
	ctx := "conf=" + c.String() + " second-host"
	soA, seA, soB, seB := &syncBuf{}, &syncBuf{}, &syncBuf{}, &syncBuf{}
	c.SyncStdout, c.SyncStderr = soA, seA
	// astalled: host A has stopped consuming its stdout stream (its writer is
	// stuck) with output in flight when its connection goes away
	aStalled := r.Spec.P("astalled", "") == "1"
	gate := &gateWriter{w: soA, release: make(chan struct{})}
	if aStalled {
		ctx += " host-A-stalled-with-output-in-flight"
		c.SyncStdout = gate
	}
	var mu sync.Mutex
	hostEnds := map[*k.Endpoint]bool{}
	w.OnConnWrite = func(e *k.Endpoint, data []byte) {
		if o := e.Owner(); o != nil && o.Name == "host" {
			mu.Lock()
			hostEnds[e] = true
			mu.Unlock()
		}
	}
	nOut := []int{10, 1024, 1500, 5000}[w.Range("detached/out", 4)]
	nErr := []int{0, 7, 1024, 3000}[w.Range("detached/err", 4)]
	dOut, dErr := c11Fill("out", 0, nOut), c11Fill("err", 0, nErr)
	var writeNow, written atomic.Bool
	c.PluginMain = func(serve func()) {
		go func() {
			for !writeNow.Load() {
				time.Sleep(10 * time.Millisecond)
			}
			simos.GetStdout().Write(dOut)
			if nErr > 0 {
				simos.GetStderr().Write(dErr)
			}
			written.Store(true)
		}()
		serve()
	}
	r.InstallPlugin(&c)
	a := r.NewClient(c)
	o := r.DoNoHang("A.connect", 120*time.Second, ctx, func() (any, error) {
		cp, err := a.Client()
		if err != nil {
			return nil, err
		}
		return cp.Dispense(h.PluginName)
	})
	if o.Err != nil || o.Hung {
		r.Violate("setup", "host A "+ctx, fmt.Sprint(o.Err))
		return
	}
	if _, err := o.Val.(plugins.Cmd).Do("stdout", hex.EncodeToString([]byte("seen by A\n"))); err != nil {
		r.Violate("setup", "host A write "+ctx, err.Error())
		return
	}
	for i := 0; i < 50 && !bytes.Contains(soA.Bytes(), []byte("seen by A")); i++ {
		time.Sleep(100 * time.Millisecond)
	}
	rc := a.ReattachConfig()
	if rc == nil {
		r.Violate("setup", "no reattach config "+ctx, "")
		return
	}
	// (enough to fill host A's flow-control window AND the server's write quota
	// - 64 KiB each - and so leave its handler
	// inside Send, little enough for the plugin's own write to complete: two
	// writers on the pipe at once would leave the order undefined)
	const floodN = 170000
	if aStalled {
		gate.arm()
		cmdA := o.Val.(plugins.Cmd)
		fo := r.Do("A.flood", 20*time.Second, func() (any, error) {
			return cmdA.Do("stdout", hex.EncodeToString(bytes.Repeat([]byte{'A'}, floodN)))
		})
		if fo.Hung || fo.Err != nil {
			w.Probe("stdio.second-host.flood-did-not-complete")
			aStalled = false
			close(gate.release)
			gate.release = make(chan struct{})
		}
		time.Sleep(time.Second)
	}
	// host A goes away without a word
	mu.Lock()
	for e := range hostEnds {
		e.Reset()
	}
	mu.Unlock()
	w.CountFault("conn.rst@host-detach")
	time.Sleep(time.Duration(100+w.Range("detached/wait", 4)*300) * time.Millisecond)
	writeNow.Store(true)
	// (the second host's own traffic must come after these bytes: wait until
	// the plugin has handed them to its stdout/stderr)
	for i := 0; i < 500 && !written.Load(); i++ {
		time.Sleep(10 * time.Millisecond)
	}
	time.Sleep(time.Duration(w.Range("attach/delay", 3)) * time.Second)
	b := plugin.NewClient(&plugin.ClientConfig{
		HandshakeConfig: plugins.Handshake, Plugins: h.PluginSet("grpc", plugins.NewShared("hostB")),
		AllowedProtocols: []plugin.Protocol{plugin.ProtocolGRPC}, Logger: r.Logger("hostB"), Reattach: rc,
		SyncStdout: soB, SyncStderr: seB,
	})
	ob := r.DoNoHang("B.connect", 120*time.Second, ctx, func() (any, error) {
		cp, err := b.Client()
		if err != nil {
			return nil, err
		}
		return cp.Dispense(h.PluginName)
	})
	if ob.Err != nil || ob.Hung {
		r.Violate("setup", "host B "+ctx, fmt.Sprint(ob.Err))
		return
	}
	if aStalled {
		// (the plugin's own write was stuck behind what host A left in the pipe;
		// B's marker must come after it for the expected order to be defined)
		for i := 0; i < 300 && !written.Load(); i++ {
			time.Sleep(100 * time.Millisecond)
		}
	}
	ob.Val.(plugins.Cmd).Do("stdout", hex.EncodeToString([]byte("seen by B\n")))
	wantOut := append(append([]byte(nil), dOut...), []byte("seen by B\n")...)
	for waited := time.Duration(0); waited < 20*time.Second; waited += 200 * time.Millisecond {
		if aStalled {
			// (host A's leftovers come first: wait for the end of what is expected)
			if bytes.HasSuffix(soB.Bytes(), wantOut) && len(seB.Bytes()) >= len(dErr) && written.Load() {
				break
			}
		} else if len(soB.Bytes()) >= len(wantOut) && len(seB.Bytes()) >= len(dErr) && written.Load() {
			break
		}
		time.Sleep(200 * time.Millisecond)
	}
	if !written.Load() {
		r.Violate("stdio-stalled", ctx, "the plugin's writes while no host was attached never completed")
	}
	if aStalled {
		// what host A had not taken yet may reach B first (it was written before
		// B attached); then, complete and in order, the rest
		close(gate.release)
		got := soB.Bytes()
		i := 0
		for i < len(got) && got[i] == 'A' && !bytes.HasPrefix(got[i:], wantOut) {
			i++
		}
		if !bytes.Equal(got[i:], wantOut) {
			r.Violate("stdio-lost", ctx+" stream=out", fmt.Sprintf("after %d bytes left over from host A's time, host B holds %d bytes, want the %d written since: %q", i, len(got)-i, len(wantOut), firstN(string(got[i:]), 80)))
		}
	} else if got := soB.Bytes(); !bytes.Equal(got, wantOut) {
		r.Violate("stdio-lost", ctx+" stream=out", describeDiff(got, wantOut, dErr)+fmt.Sprintf(" (bytes written while no host was attached: %d)\n got: %q\nwant: %q\nhost A has: %q", nOut, firstN(string(got), 80), firstN(string(wantOut), 80), firstN(string(soA.Bytes()), 80)))
	}
	if got := seB.Bytes(); !bytes.Equal(got, dErr) {
		r.Violate("stdio-lost", ctx+" stream=err", describeDiff(got, dErr, dOut))
	}
	if bytes.Contains(soA.Bytes(), dOut[:min(len(dOut), 8)]) && nOut >= 8 && !aStalled {
		r.Violate("stdio-corrupt", ctx+" stream=out to-departed-host", "bytes written after host A's connection was gone arrived at host A's writer")
	}
	w.Probe("stdio.second-host")
	r.DoNoHang("B.Kill", 120*time.Second, ctx, func() (any, error) { b.Kill(); return nil, nil })
}

func runC11(r *h.Run) {
	if r.Spec.P("secondhost", "") == "1" {
		runC11SecondHost(r)
		return
	}
	if r.Spec.P("werr", "") != "" {
		runC11WriterError(r)
		return
	}
	w := r.W
	c := r.ConfFromParams()
	so, se := &syncBuf{}, &syncBuf{}
	c.SyncStdout, c.SyncStderr = so, se
	ctx := "conf=" + c.String()

	var early, late []c11Write
	if fx := r.Spec.P("fixed", ""); fx != "" {
		var n int
		fmt.Sscan(fx, &n)
		ws := []c11Write{{"out", n}, {"err", n}, {"out", 3}, {"err", 5}}
		if r.Spec.P("when", "early") == "early" {
			early = ws
		} else {
			late = ws
		}
	} else {
		ne, nl := w.Range("early/n", 6), w.Range("late/n", 6)
		for i := 0; i < ne; i++ {
			early = append(early, c11Write{[]string{"out", "err"}[w.Range("early/stream", 2)], c11Sizes[w.Range("early/size", len(c11Sizes))]})
		}
		for i := 0; i < nl; i++ {
			late = append(late, c11Write{[]string{"out", "err"}[w.Range("late/stream", 2)], c11Sizes[w.Range("late/size", len(c11Sizes))]})
		}
	}
	attachDelay := time.Duration(w.Range("attach/delay", 4)) * time.Second

	// expected bytes per stream
	exp := map[string][]byte{"out": nil, "err": nil}
	off := map[string]int{}
	var earlyData, lateData [][]byte
	for _, wr := range early {
		b := c11Fill(wr.stream, off[wr.stream], wr.size)
		off[wr.stream] += wr.size
		exp[wr.stream] = append(exp[wr.stream], b...)
		earlyData = append(earlyData, b)
	}
	for _, wr := range late {
		b := c11Fill(wr.stream, off[wr.stream], wr.size)
		off[wr.stream] += wr.size
		exp[wr.stream] = append(exp[wr.stream], b...)
		lateData = append(lateData, b)
	}

	var mu sync.Mutex
	earlyDone := false
	c.PluginMain = func(serve func()) {
		go func() {
			me := k.Cur()
			// user code that starts printing once serving has begun (Serve has
			// replaced the process's stdout/stderr)
			for simos.GetStdout() == me.Fd1 || simos.GetStderr() == me.Fd2 {
				time.Sleep(time.Millisecond)
			}
			for i, wr := range early {
				f := simos.GetStdout()
				if wr.stream == "err" {
					f = simos.GetStderr()
				}
				f.Write(earlyData[i])
			}
			mu.Lock()
			earlyDone = true
			mu.Unlock()
		}()
		serve()
	}
	r.InstallPlugin(&c)
	cl := r.NewClient(c)
	if o := r.DoNoHang("Start", 90*time.Second, ctx, func() (any, error) { return cl.Start() }); o.Err != nil || o.Hung {
		r.Violate("setup", "start failed "+ctx, fmt.Sprint(o.Err))
		return
	}
	time.Sleep(attachDelay)
	o := r.DoNoHang("Client+Dispense", 90*time.Second, ctx, func() (any, error) {
		cp, err := cl.Client()
		if err != nil {
			return nil, err
		}
		return cp.Dispense(h.PluginName)
	})
	if o.Err != nil || o.Hung {
		r.Violate("setup", "connect failed "+ctx, fmt.Sprint(o.Err))
		return
	}
	cmd := o.Val.(plugins.Cmd)
	noisy := func() bool { return w.FaultCount("conn.rst") > 0 }
	checkPrefix := func(when string) {
		for _, st := range []struct {
			name string
			got  []byte
		}{{"out", so.Bytes()}, {"err", se.Bytes()}} {
			e := exp[st.name]
			if len(st.got) > len(e) || !bytes.Equal(st.got, e[:len(st.got)]) {
				r.Violate("stdio-corrupt", fmt.Sprintf("%s stream=%s at=%s", ctx, st.name, when), describeDiff(st.got, e, exp[other(st.name)]))
			}
		}
	}
	// wait for the early writer (it may have been blocked by a full pipe until now)
	for waited := time.Duration(0); waited < 60*time.Second+w.InjectedTotal(); waited += 100 * time.Millisecond {
		mu.Lock()
		d := earlyDone
		mu.Unlock()
		if d {
			break
		}
		time.Sleep(100 * time.Millisecond)
		if waited%(time.Second) == 0 {
			checkPrefix("early")
		}
	}
	mu.Lock()
	d := earlyDone
	mu.Unlock()
	if !d {
		r.Violate("stdio-stalled", ctx+" phase=early", fmt.Sprintf("the plugin's early writes never completed: the sync stream is not being consumed (stdout %d/%d, stderr %d/%d bytes)\n%s", len(so.Bytes()), len(exp["out"]), len(se.Bytes()), len(exp["err"]), h.StacksOf("plugin", "goplugin")))
		r.Do("Kill", 120*time.Second, func() (any, error) { cl.Kill(); return nil, nil })
		return
	}
	for i, wr := range late {
		opn := "stdout"
		if wr.stream == "err" {
			opn = "stderr"
		}
		data := lateData[i]
		ro := r.DoNoHang(fmt.Sprintf("Do(%s,%d)", opn, len(data)), 90*time.Second, ctx, func() (any, error) { return cmd.Do(opn, hex.EncodeToString(data)) })
		if ro.Hung {
			return
		}
		if ro.Err != nil && !noisy() {
			r.Violate("setup", "write op failed "+ctx, ro.Err.Error())
			return
		}
		// other RPC traffic in between
		r.DoNoHang("Do(tag)", 60*time.Second, ctx, func() (any, error) { return cmd.Do("tag", "") })
		checkPrefix("mid")
	}
	// quiescence: wait until nothing changes any more (bounded)
	last := -1
	for waited := time.Duration(0); waited < 30*time.Second+w.InjectedTotal(); waited += 500 * time.Millisecond {
		n := len(so.Bytes()) + len(se.Bytes())
		if n == len(exp["out"])+len(exp["err"]) {
			break
		}
		if n == last && waited > 10*time.Second {
			break
		}
		last = n
		time.Sleep(500 * time.Millisecond)
	}
	checkPrefix("end")
	for _, st := range []struct {
		name string
		got  []byte
	}{{"out", so.Bytes()}, {"err", se.Bytes()}} {
		if len(st.got) < len(exp[st.name]) && !noisy() {
			r.Violate("stdio-lost", fmt.Sprintf("%s stream=%s", ctx, st.name), fmt.Sprintf("the connection is alive and quiescent but only %d of %d bytes arrived at the sync writer", len(st.got), len(exp[st.name])))
		}
	}
	if len(exp["out"])+len(exp["err"]) > 0 {
		w.Probe("stdio.bytes")
	}
	if len(early) > 0 {
		w.Probe("stdio.early-writes")
	}
	r.DoNoHang("Kill", 120*time.Second, ctx, func() (any, error) { cl.Kill(); return nil, nil })
}

func other(s string) string {
	if s == "out" {
		return "err"
	}
	return "out"
}

func describeDiff(got, want, otherStream []byte) string {
	i := firstDiff(got, want)
	what := "differs from"
	if i == len(want) && len(got) > len(want) {
		what = "is longer than (duplicate or foreign bytes after)"
	}
	cross := ""
	if i < len(got) && len(otherStream) > 0 && bytes.Contains(otherStream, got[i:min(len(got), i+16)]) {
		cross = "; the unexpected bytes occur in the OTHER stream's data (crossed streams)"
	}
	return fmt.Sprintf("sync writer content (%d bytes) %s the bytes the plugin wrote (%d bytes) at offset %d%s", len(got), what, len(want), i, cross)
}
