package props

import (
	"context"
	"errors"
	"fmt"
	"net"
	"reflect"
	"strings"
	"sync"
	"time"

	plugin "simworld/goplugin"
	"simworld/h"
	"simworld/k"
	"simworld/plugins"
)

// C15: reattach reaches the same live plugin; test mode never kills the server.

var c15Scenarios = []string{"basic", "second-hop", "multi", "kill-b", "kill-a-then-b", "kill-both", "frozen-kill-b", "kill-a-then-reattach", "crash-then-reattach", "nothing-listens", "pid-reused", "dies-before-connect", "connect-fails-once", "reattachfunc-reused", "testmode", "testmode-kill-many", "testmode-second-hop", "testmode-late", "testmode-long", "testmode-versioned"}

func init() {
	Register(&Prop{ID: "C15",
		Meta: Meta{Level: "exploration",
			Rule:       "histories over {start A, write state through A, take ReattachConfig, reattach as B (and C, D, sequentially and concurrently), read state through each, kill B, kill A, crash the plugin, reattach after death, reattach to an address where nothing listens, reattach after the pid was reused by an unrelated process, a second unrelated plugin that must survive}, for net/rpc and gRPC, for simulated plugin processes and for in-process test-mode servers (ServeTestConfig with context cancel and CloseCh); scenarios enumerated x protocol, then seeded schedule noise in reattach/cmd_reattach/pidWait/Kill. Oracle: every reattached client sees A's state and protocol and can dispense; killing a reattached (non-test) client terminates exactly that plugin; reattach with nothing listening or after death fails with ErrProcessNotFound and never signals an unrelated process; in test mode Kill leaves the server answering further clients and it stops, closing CloseCh, only after its context is cancelled; a test-mode reattached client first used 1.5-4.5 s after Start, or kept in use (calls, brokered connections) for several seconds, keeps working and never reports Exited()",
			Exhaustive: "scenario x protocol"},
		Plan: func(tier string, seed uint64, stage int, prev []*h.Result) []*k.Spec {
			if stage > 0 {
				return nil
			}
			var cells []map[string]string
			for _, proto := range []string{"netrpc", "grpc"} {
				for _, sc := range c15Scenarios {
					cells = append(cells, P("proto", proto, "scenario", sc))
				}
			}
			if tier == "selftest" {
				return seeded("C15", seed, 4, func(i int, sd uint64) *k.Spec {
					return &k.Spec{Params: cp(cells[int(k.H(sd, "cell", 0)%uint64(len(cells)))])}
				})
			}
			var out []*k.Spec
			for _, c := range cells {
				out = append(out, sp("C15", fmt.Sprintf("cell/%s/%s", c["proto"], c["scenario"]), seed, c))
			}
			n := 500
			if tier == "thorough" {
				n = 100000
			}
			out = append(out, seeded("C15", seed, n, func(i int, sd uint64) *k.Spec {
				s := &k.Spec{Seed: sd, Params: cp(cells[int(k.H(sd, "cell", 0)%uint64(len(cells)))])}
				swarm(s, "client.go:Client.reattach,cmd_reattach.go,process.go,client.go:Client.Kill,server.go:Serve")
				if s.DelayClass == "big" {
					s.DelayClass = "mid"
				}
				if k.H(sd, "faults", 0)%3 == 0 {
					s.Faults = "conn.latency,conn.chunk"
				}
				return s
			})...)
			return out
		},
		Run: runC15,
	})
}

func reattachClient(r *h.Run, proto string, rc *plugin.ReattachConfig, name string) *plugin.Client {
	return plugin.NewClient(&plugin.ClientConfig{
		HandshakeConfig:  plugins.Handshake,
		Plugins:          h.PluginSet(proto, plugins.NewShared("host")),
		AllowedProtocols: []plugin.Protocol{plugin.ProtocolNetRPC, plugin.ProtocolGRPC},
		Logger:           r.Logger(name),
		Reattach:         rc,
	})
}

func runC15(r *h.Run) {
	w := r.W
	proto := r.Spec.P("proto", "netrpc")
	scen := r.Spec.P("scenario", "basic")
	ctx := fmt.Sprintf("proto=%s scenario=%s", proto, scen)
	quiet := func() bool { return w.InjectedTotal() < 2*time.Second && w.FaultCount("conn.rst") == 0 }

	use := func(cl *plugin.Client, name, op, arg string) (string, error) {
		o := r.DoNoHang(fmt.Sprintf("%s.%s", name, op), 90*time.Second, ctx, func() (any, error) {
			cp, err := cl.Client()
			if err != nil {
				return nil, err
			}
			raw, err := cp.Dispense(h.PluginName)
			if err != nil {
				return nil, err
			}
			return raw.(plugins.Cmd).Do(op, arg)
		})
		if o.Hung {
			return "", errors.New("hung")
		}
		if o.Err != nil {
			return "", o.Err
		}
		return o.Val.(string), nil
	}
	kill := func(cl *plugin.Client, name string) bool {
		o := r.DoNoHang(name+".Kill", 150*time.Second, ctx, func() (any, error) { cl.Kill(); return nil, nil })
		return !o.Hung
	}

	if strings.HasPrefix(scen, "testmode") {
		runC15TestMode(r, proto, scen, ctx, use, kill)
		return
	}

	c := h.Conf{Proto: proto, Name: "plugin"}
	r.InstallPlugin(&c)
	a := r.NewClient(c)
	if o := r.DoNoHang("A.Start", 90*time.Second, ctx, func() (any, error) { return a.Start() }); o.Err != nil || o.Hung {
		r.Violate("setup", "start "+ctx, fmt.Sprint(o.Err))
		return
	}
	// an unrelated second plugin that must survive everything
	c2 := h.Conf{Proto: proto, Name: "bystander"}
	r.InstallPlugin(&c2)
	a2 := r.NewClient(c2)
	if o := r.DoNoHang("A2.Start", 90*time.Second, ctx, func() (any, error) { return a2.Start() }); o.Err != nil || o.Hung {
		r.Violate("setup", "start bystander "+ctx, fmt.Sprint(o.Err))
		return
	}
	if _, err := use(a, "A", "set", "color=teal"); err != nil {
		r.Violate("setup", "write through A "+ctx, err.Error())
		return
	}
	rc := a.ReattachConfig()
	if rc == nil || rc.Addr == nil || rc.Pid == 0 {
		r.Violate("bad-reattach-config", ctx, fmt.Sprintf("ReattachConfig() = %+v", rc))
		return
	}
	plug := w.ProcByName("plugin")
	by := w.ProcByName("bystander")
	checkSees := func(cl *plugin.Client, name string) {
		v, err := use(cl, name, "get", "color")
		if err != nil {
			if quiet() {
				r.Violate("reattach-failed", ctx+" client="+name, fmt.Sprintf("reattached client cannot use the live plugin: %v", err))
			}
			return
		}
		if v != "teal" {
			r.Violate("wrong-instance", ctx+" client="+name, fmt.Sprintf("reattached client read %q, the plugin instance A wrote to holds \"teal\"", v))
		}
		if got := string(cl.Protocol()); got != proto {
			r.Violate("wrong-protocol", ctx+" client="+name, fmt.Sprintf("reattached client speaks %q, the plugin speaks %q", got, proto))
		}
	}
	expectNotFound := func(cl *plugin.Client, name string) {
		o := r.DoNoHang(name+".Start", 60*time.Second, ctx, func() (any, error) { return cl.Start() })
		if o.Hung {
			return
		}
		if o.Err == nil {
			r.Violate("reattached-to-nothing", ctx+" client="+name, "Start succeeded although nothing is listening at the reattach address")
		} else if !errors.Is(o.Err, plugin.ErrProcessNotFound) {
			r.Violate("wrong-error", ctx+" client="+name, fmt.Sprintf("want ErrProcessNotFound, got %v", o.Err))
		}
		// asking the same client again must give the same answer
		o2 := r.DoNoHang(name+".Start#2", 60*time.Second, ctx, func() (any, error) { return cl.Start() })
		if !o2.Hung && o2.Err == nil {
			r.Violate("reattached-to-nothing", ctx+" client="+name+" second-start", "the second Start on a client whose reattach failed succeeded")
		}
		if rc := cl.ReattachConfig(); rc != nil && o2.Err != nil {
			r.Violate("reattached-to-nothing", ctx+" client="+name+" reattach-config", "a client whose reattach failed hands out a ReattachConfig")
		}
		if p := cl.Protocol(); p != plugin.ProtocolInvalid {
			r.Violate("reattached-to-nothing", ctx+" client="+name+" protocol", fmt.Sprintf("a client whose reattach failed reports protocol %q", p))
		}
	}
	bystanderAlive := func(when string) {
		if by != nil && !by.Alive() {
			r.Violate("killed-bystander", ctx+" when="+when, "an unrelated plugin process was terminated")
		}
	}

	switch scen {
	case "basic":
		b := reattachClient(r, proto, rc, "B")
		checkSees(b, "B")
		w.Probe("reattach.ok")
	case "second-hop":
		// a client built from the reattach configuration of a reattached client
		b := reattachClient(r, proto, rc, "B")
		checkSees(b, "B")
		rc2 := b.ReattachConfig()
		if rc2 == nil {
			r.Violate("bad-reattach-config", ctx+" hop=2", "ReattachConfig() of a reattached client is nil")
			break
		}
		b2 := reattachClient(r, proto, rc2, "B2")
		checkSees(b2, "B2")
		if !kill(b2, "B2") {
			return
		}
		time.Sleep(3 * time.Second)
		if plug.Alive() {
			r.Violate("reattach-kill-ineffective", ctx+" hop=2", "Kill on the second-hop client returned but the plugin process is still running")
		}
		bystanderAlive("second-hop")
	case "multi":
		var wg sync.WaitGroup
		cls := []*plugin.Client{reattachClient(r, proto, rc, "B"), reattachClient(r, proto, rc, "C"), reattachClient(r, proto, rc, "D")}
		checkSees(cls[0], "B")
		for i, cl := range cls[1:] {
			i, cl := i, cl
			wg.Add(1)
			go k.Trap(func() { defer wg.Done(); checkSees(cl, []string{"C", "D"}[i]) })
		}
		wg.Wait()
		// write through a reattached client, read through the original
		if _, err := use(cls[1], "C", "set", "color=plum"); err == nil {
			if v, err := use(a, "A", "get", "color"); err == nil && v != "plum" {
				r.Violate("wrong-instance", ctx+" client=A", fmt.Sprintf("A read %q after C wrote \"plum\"", v))
			}
		}
	case "kill-b":
		b := reattachClient(r, proto, rc, "B")
		checkSees(b, "B")
		if !kill(b, "B") {
			return
		}
		time.Sleep(3 * time.Second)
		if plug.Alive() {
			r.Violate("reattach-kill-ineffective", ctx, "Kill on the reattached client returned but the plugin process is still running")
		}
		bystanderAlive("kill-b")
		if !b.Exited() {
			r.Violate("not-exited", ctx+" client=B", "plugin terminated but the reattached client does not report it exited")
		}
		time.Sleep(2 * time.Second)
		if !a.Exited() {
			r.Violate("not-exited", ctx+" client=A", "plugin terminated through B but the original client does not report it exited")
		}
	case "kill-a-then-b", "kill-both", "frozen-kill-b":
		// the reattached client's Kill takes the force-kill path (the original
		// client is shutting the plugin down, or the plugin is frozen): when it
		// returns and the process is gone, the client knows that it exited
		b := reattachClient(r, proto, rc, "B")
		checkSees(b, "B")
		atReturn := func(cl *plugin.Client, name string) {
			if !plug.Alive() && !cl.Exited() {
				r.Violate("not-exited", ctx+" client="+name+" at-kill-return", "Kill returned, the plugin process is gone, but Exited() is still false")
			}
		}
		switch scen {
		case "kill-a-then-b":
			if !kill(a, "A") {
				return
			}
			atReturn(a, "A")
			if !kill(b, "B") {
				return
			}
			atReturn(b, "B")
		case "kill-both":
			var wg sync.WaitGroup
			wg.Add(1)
			go k.Trap(func() {
				defer wg.Done()
				if kill(a, "A") {
					atReturn(a, "A")
				}
			})
			time.Sleep(time.Duration(w.Range("killboth/offset", 4)) * 500 * time.Microsecond)
			if kill(b, "B") {
				atReturn(b, "B")
			}
			wg.Wait()
		case "frozen-kill-b":
			plug.Stop()
			w.CountFault("proc.stop")
			if !kill(b, "B") {
				return
			}
			atReturn(b, "B")
		}
		time.Sleep(3 * time.Second)
		if plug.Alive() {
			r.Violate("reattach-kill-ineffective", ctx, "Kill returned but the plugin process is still running")
		}
		bystanderAlive(scen)
	case "kill-a-then-reattach", "crash-then-reattach":
		if scen == "crash-then-reattach" {
			plug.Crash(137, "crash")
			w.CountFault("proc.crash")
		} else if !kill(a, "A") {
			return
		}
		time.Sleep(2 * time.Second)
		expectNotFound(reattachClient(r, proto, rc, "B"), "B")
		bystanderAlive(scen)
	case "nothing-listens":
		bad := *rc
		if _, ok := rc.Addr.(*net.UnixAddr); ok {
			bad.Addr = &net.UnixAddr{Name: "/tmp/nobody-listens-here", Net: "unix"}
		} else {
			bad.Addr = &net.TCPAddr{IP: net.IPv4(127, 0, 0, 1), Port: 9}
		}
		expectNotFound(reattachClient(r, proto, &bad, "B"), "B")
		if !plug.Alive() {
			r.Violate("killed-on-failed-reattach", ctx, "a failed reattach terminated the plugin")
		}
		bystanderAlive(scen)
	case "reattachfunc-reused":
		// the host keeps ONE ReattachConfig with an explicit ReattachFunc and uses
		// it for every reattach: after the plugin was killed through a client
		// reattached with it, the next reattach with it finds nothing
		rcF := &plugin.ReattachConfig{Protocol: rc.Protocol, ProtocolVersion: rc.ProtocolVersion, Addr: rc.Addr, ReattachFunc: plugin.ReattachFuncForSim(rc.Pid, rc.Addr)}
		b := reattachClient(r, proto, rcF, "B")
		checkSees(b, "B")
		c2 := reattachClient(r, proto, rcF, "C")
		checkSees(c2, "C")
		kill(b, "B")
		time.Sleep(3 * time.Second)
		if plug.Alive() {
			r.Violate("kill-did-not-terminate", ctx+" client=B", "Kill on the reattached client left the plugin running")
		}
		expectNotFound(reattachClient(r, proto, rcF, "D"), "D")
		kill(c2, "C")
	case "dies-before-connect", "connect-fails-once":
		// the reattach itself succeeds; the first connect through the reattached
		// client fails - the plugin died in between, or its socket could not be
		// reached just then - and the same client is used again
		b := reattachClient(r, proto, rc, "B")
		if o := r.DoNoHang("B.Start", 60*time.Second, ctx, func() (any, error) { return b.Start() }); o.Err != nil || o.Hung {
			if !o.Hung && quiet() {
				r.Violate("reattach-failed", ctx+" client=B start", fmt.Sprint(o.Err))
			}
			break
		}
		sock := ""
		if ua, ok := rc.Addr.(*net.UnixAddr); ok {
			sock = ua.Name
		}
		if scen == "dies-before-connect" {
			plug.Crash(137, "dies between reattach and connect")
			w.CountFault("proc.crash")
			time.Sleep(50 * time.Millisecond)
		} else if sock != "" {
			w.Rename(sock, sock+".away")
			w.CountFault("fs.socket-moved")
		}
		connect := func(tag string) (any, error, bool) {
			o := r.DoNoHang("B.Client"+tag, 60*time.Second, ctx, func() (any, error) {
				cp, err := b.Client()
				if err != nil {
					return nil, err
				}
				if cp == nil || reflect.ValueOf(cp).IsNil() {
					return nil, fmt.Errorf("C15-NIL-CLIENT")
				}
				return cp, cp.Ping()
			})
			return o.Val, o.Err, o.Hung
		}
		_, err1, hung := connect("#1")
		if hung {
			break
		}
		if err1 == nil && scen == "dies-before-connect" {
			r.Violate("connected-to-dead-plugin", ctx+" client=B", "Client()+Ping succeeded although the plugin had died")
		}
		if scen == "connect-fails-once" && sock != "" {
			w.Rename(sock+".away", sock)
		}
		_, err2, hung := connect("#2")
		if hung {
			break
		}
		if err2 != nil && strings.Contains(err2.Error(), "C15-NIL-CLIENT") {
			r.Violate("nil-client-without-error", ctx+" client=B second-connect", "after a failed connect the next Client() returned a nil client and no error")
		}
		if scen == "dies-before-connect" && err2 == nil {
			r.Violate("connected-to-dead-plugin", ctx+" client=B second-connect", "the second Client()+Ping succeeded although the plugin is dead")
		}
		if scen == "connect-fails-once" && proto == "netrpc" && err1 != nil && err2 != nil && quiet() {
			r.Violate("reattach-failed", ctx+" client=B second-connect", fmt.Sprintf("the socket is reachable again but the reattached client still cannot connect: %v", err2))
		}
		if scen == "connect-fails-once" && err2 == nil {
			checkSees(b, "B")
		}
		kill(b, "B")
		time.Sleep(2 * time.Second)
		if plug.Alive() {
			r.Violate("kill-did-not-terminate", ctx+" client=B", "Kill on the reattached client left the plugin running")
		}
		if scen == "dies-before-connect" {
			expectNotFound(reattachClient(r, proto, rc, "C"), "C")
		}
	case "pid-reused":
		plug.Crash(137, "crash")
		time.Sleep(2 * time.Second)
		w.RegisterProgram("/bin/unrelated", []byte("#!unrelated"), func() { select {} })
		un, err := w.Spawn("unrelated", "/bin/unrelated", nil, nil, nil, nil, nil, nil)
		if err != nil {
			r.Violate("setup", "spawn unrelated", err.Error())
			return
		}
		w.ReusePid(rc.Pid, un)
		w.CountFault("pid.reuse")
		b := reattachClient(r, proto, rc, "B")
		expectNotFound(b, "B")
		kill(b, "B")
		time.Sleep(3 * time.Second)
		if !un.Alive() {
			r.Violate("killed-unrelated-process", ctx, "a process that merely got the dead plugin's pid was terminated")
		}
	}
	kill(a, "A")
	bystanderAlive("end")
	kill(a2, "A2")
}

func runC15TestMode(r *h.Run, proto, scen, ctx string, use func(*plugin.Client, string, string, string) (string, error), kill func(*plugin.Client, string) bool) {
	w := r.W
	cctx, cancel := context.WithCancel(context.Background())
	defer cancel()
	rcCh := make(chan *plugin.ReattachConfig, 1)
	closeCh := make(chan struct{})
	sh := plugins.NewShared("test/" + proto)
	sc := &plugin.ServeConfig{HandshakeConfig: plugins.Handshake, Plugins: h.PluginSet(proto, sh), Logger: r.Logger("inproc"),
		Test: &plugin.ServeTestConfig{Context: cctx, ReattachConfigCh: rcCh, CloseCh: closeCh}}
	if proto == "grpc" {
		sc.GRPCServer = plugin.DefaultGRPCServer
	}
	if scen == "testmode-versioned" {
		// versioned sets only: the server serves its lowest version (nobody
		// gave it a list) and must say so in the configuration it hands out
		sc.VersionedPlugins = map[int]plugin.PluginSet{2: h.PluginSet(proto, sh), 3: h.PluginSet(proto, plugins.NewShared("test-v3/"+proto))}
		sc.Plugins = nil
		sc.HandshakeConfig.ProtocolVersion = 0
	}
	go k.Trap(func() { plugin.Serve(sc) })
	var rc *plugin.ReattachConfig
	select {
	case rc = <-rcCh:
	case <-time.After(30 * time.Second):
		r.Violate("setup", "no reattach config from test-mode Serve "+ctx, "")
		return
	}
	if !rc.Test {
		r.Violate("bad-reattach-config", ctx, "test-mode ReattachConfig has Test=false")
	}
	if scen == "testmode-versioned" && rc.ProtocolVersion != 2 {
		r.Violate("bad-reattach-config", ctx+" protocol-version", fmt.Sprintf("the server serves its lowest version 2, its ReattachConfig says %d", rc.ProtocolVersion))
	}
	if string(rc.Protocol) != proto {
		r.Violate("bad-reattach-config", ctx+" protocol", fmt.Sprintf("the server speaks %s, its ReattachConfig says %q", proto, rc.Protocol))
	}
	quiet := func() bool { return w.InjectedTotal() < 2*time.Second }
	b := reattachClient(r, proto, rc, "B")
	if scen == "testmode-late" {
		// the client is started at once and first used well after the reattach
		// runner's first look at the serving process (one second)
		if o := r.DoNoHang("B.Start", 60*time.Second, ctx, func() (any, error) { return b.Start() }); o.Err != nil && quiet() {
			r.Violate("reattach-failed", ctx+" client=B start", o.Err.Error())
		}
		time.Sleep(time.Duration(1500+w.Range("testmode/late", 4)*1000) * time.Millisecond)
		if b.Exited() {
			r.Violate("reattach-failed", ctx+" client=B reports-exited", "a reattached test-mode client reports the live server as exited")
		}
	}
	if _, err := use(b, "B", "set", "color=teal"); err != nil && quiet() {
		r.Violate("reattach-failed", ctx+" client=B", err.Error())
	}
	if scen == "testmode-long" {
		// ... and a client that stays attached for a while keeps working
		for i := 0; i < 3; i++ {
			time.Sleep(time.Duration(700+w.Range("testmode/long", 4)*500) * time.Millisecond)
			if b.Exited() {
				r.Violate("reattach-failed", ctx+" client=B reports-exited", "a reattached test-mode client reports the live server as exited")
				break
			}
			if v, err := use(b, "B", "get", "color"); err != nil && quiet() {
				r.Violate("reattach-failed", ctx+" client=B later-use", err.Error())
			} else if err == nil && v != "teal" {
				r.Violate("wrong-instance", ctx+" client=B later-use", v)
			}
			if proto == "grpc" {
				// a brokered connection through the long-lived client
				if o := r.DoNoHang("B.broker", 60*time.Second, ctx, func() (any, error) {
					cp, err := b.Client()
					if err != nil {
						return nil, err
					}
					raw, err := cp.Dispense(h.PluginName)
					if err != nil {
						return nil, err
					}
					cmd := raw.(plugins.Cmd)
					id := uint32(7100 + i)
					if _, err := cmd.Do("accept", fmt.Sprint(id)); err != nil {
						return nil, err
					}
					return h.HostDialPing(cmd, id)
				}); o.Err != nil && quiet() {
					r.Violate("reattach-failed", ctx+" client=B later-broker", o.Err.Error())
				}
			}
		}
	}
	rounds := 1
	if scen == "testmode-kill-many" {
		rounds = 3
	}
	if scen == "testmode-second-hop" {
		// reattach through the configuration a reattached client hands out
		if rc2 := b.ReattachConfig(); rc2 == nil {
			r.Violate("bad-reattach-config", ctx+" hop=2", "ReattachConfig() of a test-mode client is nil")
		} else {
			b = reattachClient(r, proto, rc2, "B2")
			if v, err := use(b, "B2", "get", "color"); err != nil && quiet() {
				r.Violate("reattach-failed", ctx+" client=B2", err.Error())
			} else if err == nil && v != "teal" {
				r.Violate("wrong-instance", ctx+" client=B2", v)
			}
		}
	}
	for i := 0; i < rounds; i++ {
		if !kill(b, "B") {
			return
		}
		select {
		case <-closeCh:
			r.Violate("testmode-server-stopped", ctx, "Kill on a test-mode client stopped the in-process server (CloseCh closed)")
			return
		case <-time.After(3 * time.Second):
		}
		b = reattachClient(r, proto, rc, fmt.Sprintf("C%d", i))
		v, err := use(b, "C", "get", "color")
		if err != nil {
			if quiet() {
				r.Violate("testmode-server-stopped", ctx, fmt.Sprintf("after Kill on a test-mode client a further client cannot use the server: %v", err))
			}
		} else if v != "teal" {
			r.Violate("wrong-instance", ctx, fmt.Sprintf("further client read %q", v))
		}
	}
	w.Probe("testmode.survived-kill")
	cancel()
	select {
	case <-closeCh:
		w.Probe("testmode.stopped-on-cancel")
	case <-time.After(60 * time.Second):
		r.Violate("testmode-not-stopped", ctx, "context cancelled but CloseCh was not closed within 60s\n"+r.HostStacks("goplugin"))
	}
	kill(b, "B")
}
