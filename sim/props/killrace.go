package props

import (
	"encoding/json"
	"fmt"
	"sort"
	"strings"
	"sync"
	"time"

	"simworld/h"
	"simworld/k"
	"simworld/plugins"
)

// Kill racing an operation in flight, systematically: a profile run records
// every statement of go-plugin a HOST goroutine passes while the host issues
// broker operations, a dispense and calls; then one run per recorded
// (statement, occurrence) in which another host goroutine calls Client.Kill
// exactly while the operation's goroutine is at that statement (it stays
// there for 50 ms). Shared by C09 (closing the client ends the broker's
// goroutines) and C18 (shutdown leaves no sockets, directories or goroutines).

type opSite struct {
	Proc  string `json:"p,omitempty"`
	Site  string `json:"s"`
	First int    `json:"f"` // first occurrence inside the operations phase
	Last  int    `json:"l"`
}

func killRaceSpecs(prop string, tier string, seed uint64, stage int, prev []*h.Result) []*k.Spec {
	confs := c03Confs[:3]
	if tier == "thorough" {
		confs = c03Confs
	}
	switch stage {
	case 0:
		var out []*k.Spec
		for _, c := range confs {
			s := sp(prop, "killrace-profile/"+confLabel(c), seed, cp(c, "killrace", "profile"))
			s.Profile = true
			out = append(out, s)
		}
		return out
	case 1:
		maxOcc := 2
		if tier == "thorough" {
			maxOcc = 6
		}
		var out []*k.Spec
		for _, pr := range prev {
			if pr.Spec == nil || pr.Spec.P("killrace", "") != "profile" {
				continue
			}
			var sites []opSite
			json.Unmarshal([]byte(pr.Info["opsites"]), &sites)
			for _, st := range sites {
				for occ := st.First; occ <= st.Last && occ < st.First+maxOcc; occ++ {
					proc := st.Proc
					if proc == "" {
						proc = "host"
					}
					s := sp(prop, fmt.Sprintf("kill-at/%s/%s:%s#%d", pr.Info["conf"], proc, st.Site, occ), seed, cp(pr.Spec.Params, "killrace", "at"))
					s.Triggers = []*k.Trigger{{On: "site", Proc: proc, Key: st.Site, Occ: occ, Act: "callsleep:kill:50000000"}}
					out = append(out, s)
				}
			}
		}
		return out
	}
	return nil
}

func runKillRace(r *h.Run, prop string) {
	w := r.W
	c := r.ConfFromParams()
	r.Info["conf"] = c.String()
	ctx := "kill-racing-operation conf=" + c.String()
	if len(r.Spec.Triggers) > 0 {
		site := strings.SplitN(r.Spec.Triggers[0].Key, "#", 2)[0]
		ctx += " op-at=" + site
		if r.Spec.Triggers[0].Proc == "plugin" {
			ctx += "(plugin)"
		}
	}
	before := map[string]bool{}
	for _, p := range w.Paths() {
		before[p] = true
	}
	s := open(r, c)
	if s == nil {
		return
	}
	var once sync.Once
	killed := make(chan struct{})
	kill := func() {
		once.Do(func() {
			go func() {
				// (the trigger may fire on a goroutine of the plugin process: the
				// Kill is the host's)
				r.Host.Adopt()
				k.Trap(func() {
					defer close(killed)
					s.kill()
				})
			}()
		})
	}
	w.Callbacks = map[string]func(){"kill": kill}
	mark := w.SitePass()

	// the operations, one at a time; after the Kill they may fail, never hang
	id := uint32(4000)
	op := func(name string, f func() (any, error)) {
		r.DoNoHang(name, 60*time.Second, ctx, f)
	}
	if gc, ok := s.cmd.(*plugins.GRPCClient); ok {
		op("HostAcceptOnly", func() (any, error) {
			ln, err := gc.Broker.Accept(id + 1)
			if err == nil {
				defer ln.Close()
			}
			return nil, err
		})
	}
	s.cmd.Do("accept", fmt.Sprint(id+2))
	op("HostDial", func() (any, error) { return h.HostDialPing(s.cmd, id+2) })
	h.HostAccept(r, s.cmd, id+3)
	op("PluginDial", func() (any, error) { return s.cmd.Do("dial", fmt.Sprint(id+3)) })
	op("Dispense", func() (any, error) { return s.cp.Dispense(h.PluginName) })
	op("Do(tag)", func() (any, error) { return s.cmd.Do("tag", "") })
	op("Ping", func() (any, error) { return nil, s.cp.Ping() })
	op("HostDialNoAccept", func() (any, error) { return h.HostDialPing(s.cmd, id+9) })

	if r.Spec.Profile {
		end := w.SitePass()
		var sites []opSite
		for key, n := range end {
			proc, site, ok := strings.Cut(key, " ")
			if !ok || (proc != "host" && proc != "plugin") || n <= mark[key] {
				continue
			}
			if proc == "plugin" && prop != "C20" {
				// The plugin's own statements are not enumerated - except for C20,
				// whose oracle (no panic, no hang) does not look at left-over files. (Tried for C18:
				// the only thing it shows is that a plugin PROCESS that exits while
				// one of its goroutines is in the middle of creating a brokered
				// listener leaves that socket file - the goroutine never runs
				// again. That is an accept still in flight at the Kill, outside the
				// property's "histories followed by Kill", and nothing at the
				// level of Accept can close it.)
				continue
			}
			sites = append(sites, opSite{Proc: proc, Site: site, First: mark[key] + 1, Last: n})
		}
		sort.Slice(sites, func(i, j int) bool { return sites[i].Proc+sites[i].Site < sites[j].Proc+sites[j].Site })
		js, _ := json.Marshal(sites)
		r.Info["opsites"] = string(js)
	}
	plug := w.ProcByName("plugin")
	kill() // (not reached by the trigger: an ordinary Kill after the operations)
	select {
	case <-killed:
	case <-time.After(200 * time.Second):
		return // s.kill() has reported the hang
	}
	if len(r.Spec.Triggers) > 0 {
		if w.FaultCount("trigger.callsleep") == 0 {
			w.Probe("killrace.site-not-reached")
		} else {
			w.Probe("killrace.site-reached")
		}
	}
	time.Sleep(10 * time.Second)
	if prop == "C09" {
		if leaks := h.StacksOf("host", "goplugin.(*MuxBroker)"); leaks != "" {
			r.Violate("goroutine-leak", ctx+" MuxBroker goroutine left after Kill", leaks)
		}
		if leaks := h.StacksOf("host", "goplugin.(*GRPCBroker)"); leaks != "" {
			r.Violate("goroutine-leak", ctx+" GRPCBroker goroutine left after Kill", leaks)
		}
		if leaks := h.StacksOf("host", "goplugin.(*gRPCBroker"); leaks != "" {
			r.Violate("goroutine-leak", ctx+" broker stream goroutine left after Kill", leaks)
		}
		return
	}
	if prop == "C20" {
		// no hang (bounded operations above), no host panic (worker), and the
		// plugin did not die of a panic of its own either
		if plug != nil && strings.HasPrefix(plug.DiedOf, "panic") {
			r.Violate("plugin-panic", ctx, "the plugin process died of "+plug.DiedOf+"\n"+firstN(r.HLog.String(), 3000))
		}
		return
	}
	// C18
	if plug != nil && plug.GotKill {
		w.Probe("not-graceful")
		return
	}
	w.Probe("graceful")
	for _, p := range w.Paths() {
		if before[p] {
			continue
		}
		n := w.NodeAt(p)
		if n == nil || (n.Creator != "host" && n.Creator != "plugin") {
			continue
		}
		if n.Kind == k.KSocket || n.Kind == k.KDir {
			kind := map[bool]string{true: "directory", false: "socket"}[n.Kind == k.KDir]
			r.Violate("file-left-behind", fmt.Sprintf("%s kind=%s creator=%s", ctx, kind, n.Creator), fmt.Sprintf("%s %s (created by %s)", kind, p, n.Creator))
		}
	}
	if leaks := r.HostStacks("simworld/goplugin"); leaks != "" {
		r.Violate("goroutine-leak", fmt.Sprintf("%s in=%s", ctx, leakFunc(leaks)), leaks)
	}
}
