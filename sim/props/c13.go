package props

import (
	"crypto/md5"
	"crypto/sha256"
	"crypto/sha512"
	"encoding/hex"
	"errors"
	"fmt"
	"github.com/hashicorp/go-hclog"
	"hash"
	"simworld/goplugin/runner"
	"strings"
	"sync"
	"time"

	plugin "simworld/goplugin"
	"simworld/h"
	"simworld/k"
	"simworld/plugins"
	"simworld/shim/simexec"
)

// C13: SecureConfig runs the binary only if its checksum matches.

func mkHash(name string) hash.Hash {
	switch name {
	case "sha256":
		return sha256.New()
	case "sha512":
		return sha512.New()
	case "md5":
		return md5.New()
	}
	return nil
}

func init() {
	Register(&Prop{ID: "C13",
		Meta: Meta{Level: "exploration",
			Rule:       "command launch of a real Serve program through the simulated exec; the file at the command path has drawn contents (0..20000 bytes); SecureConfig.Checksum in {exact, every single-bit flip (all positions of the digest), every proper prefix, extended by 1..3 bytes, empty (nil, decoded from an empty string, the empty prefix), digest of other contents, digest under another hash function} x Hash in {sha256, sha512, md5, nil}; file-system faults: EIO at a drawn offset, short reads, missing file, file replaced between check and launch is out of scope (documented by go-plugin). Oracle: a process is spawned iff digest(file) == checksum and the read succeeded; the error class matches (ErrChecksumsDoNotMatch / ErrSecureConfigNoChecksum / ErrSecureConfigNoHash / wrapped I/O error); kernel invariant: no spawn event before the file was read to EOF",
			Exhaustive: "for each hash function: all single-bit flips and all proper prefixes of the digest, extensions, empty checksum"},
		Plan: func(tier string, seed uint64, stage int, prev []*h.Result) []*k.Spec {
			if stage > 0 {
				return nil
			}
			var out []*k.Spec
			if tier == "selftest" {
				return seeded("C13", seed, 4, func(i int, sd uint64) *k.Spec {
					return &k.Spec{Params: P("hash", "sha256", "sum", "exact", "size", "100")}
				})
			}
			sizes := map[string]int{"sha256": 32, "sha512": 64, "md5": 16}
			for _, hn := range []string{"sha256", "sha512", "md5"} {
				n := sizes[hn]
				add := func(sum string, extra ...string) {
					out = append(out, sp("C13", fmt.Sprintf("enum/%s/%s", hn, sum), seed, cp(P("hash", hn, "sum", sum, "size", "777"), extra...)))
				}
				add("exact")
				add("empty")
				add("empty-nonnil")
				add("empty-prefix")
				add("other")
				add("otherhash")
				for b := 0; b < n*8; b++ {
					if tier != "thorough" && hn != "sha256" && b%8 != 3 {
						continue
					}
					add(fmt.Sprintf("flip:%d", b))
				}
				for l := 1; l < n; l++ {
					add(fmt.Sprintf("prefix:%d", l))
				}
				for e := 1; e <= 3; e++ {
					add(fmt.Sprintf("extend:%d", e))
				}
				// bytes a "tolerant" comparison might strip: line ends, blanks, NUL, 0xff
				for _, tail := range []string{"0a", "0d0a", "0a0a", "20", "09", "00", "ff", "0d"} {
					add("tail:" + tail)
					add("head:" + tail)
					add("endswith:" + tail[:2]) // file whose digest ends in that byte, exact checksum
					add("startswith:" + tail[:2])
				}
			}
			for _, hn := range []string{"sha256", "md5"} {
				if hn == "sha256" {
					// two clients started at the same time, each with its own SecureConfig:
					// a genuine binary, and a same-length tampered copy under the genuine checksum
					np := 40
					if tier == "thorough" {
						np = 3000
					}
					for v := 0; v < np; v++ {
						sp0 := sp("C13", fmt.Sprintf("parallel/%d", v), seed+uint64(v+1)*7919, P("hash", hn, "parallel", "1", "size", []string{"100", "5000", "70000"}[v%3]))
						sp0.HotPermille, sp0.DelayClass, sp0.Focus = 200, "tiny", "SecureConfig.Check"
						sp0.Wake = []int{0, 300, 900}[v%3]
						if v%2 == 1 {
							sp0.Params["fsfault"] = "short:1000"
						}
						out = append(out, sp0)
					}
					// WHICH file is checked: relative command paths with cmd.Dir, symbolic links, ".."
					for _, lay := range c13Layouts {
						out = append(out, sp("C13", "layout/"+lay, seed, P("hash", hn, "layout", lay)))
					}
				}
				for _, sc := range []string{"shared-unchanged", "shared-rewritten", "shared-rewritten-keepmtime", "shared-checksum-changed"} {
					out = append(out, sp("C13", fmt.Sprintf("shared/%s/%s", hn, sc), seed, P("hash", hn, "sum", "exact", "size", "3000", "shared", sc)))
				}
			}
			for _, sum := range []string{"exact", "flip:0", "empty", "prefix:5", "extend:1"} {
				out = append(out, sp("C13", "runner/"+sum, seed, P("hash", "sha256", "sum", sum, "size", "500", "launch", "runner")))
			}
			out = append(out, sp("C13", "runner/nilhash", seed, P("hash", "nil", "sum", "exact", "size", "500", "launch", "runner")))
			out = append(out, sp("C13", "enum/nilhash/exact", seed, P("hash", "nil", "sum", "exact", "size", "10")))
			out = append(out, sp("C13", "enum/nilhash/empty", seed, P("hash", "nil", "sum", "empty", "size", "10")))
			for _, f := range []string{"missing", "eio:0", "eio:5", "eio:4096", "eio:8999", "short:1", "short:7", "empty-file"} {
				for _, sum := range []string{"exact", "other"} {
					out = append(out, sp("C13", fmt.Sprintf("fault/%s/%s", f, sum), seed, P("hash", "sha256", "sum", sum, "size", "9000", "fsfault", f)))
				}
			}
			n := 500
			if tier == "thorough" {
				n = 100000
			}
			out = append(out, seeded("C13", seed, n, func(i int, sd uint64) *k.Spec {
				u := func(tag string, n int) int { return int(k.H(sd, tag, 0) % uint64(n)) }
				hn := []string{"sha256", "sha512", "md5", "nil"}[u("h", 4)]
				dn := sizes[hn]
				if dn == 0 {
					dn = 32
				}
				sum := []string{"exact", "exact", []string{"empty", "empty-nonnil", "empty-prefix"}[u("em", 3)], "other", "otherhash", fmt.Sprintf("flip:%d", u("fb", dn*8)), fmt.Sprintf("prefix:%d", 1+u("pl", dn-1)), fmt.Sprintf("extend:%d", 1+u("ex", 3)), "tail:" + []string{"0a", "0d0a", "20", "00", "09"}[u("tl", 5)], "endswith:" + []string{"0a", "0d", "20", "00"}[u("ew", 4)]}[u("sum", 10)]
				pp := P("hash", hn, "sum", sum, "size", fmt.Sprint(u("size", 20000)))
				if u("ff", 4) == 0 {
					pp["fsfault"] = []string{"missing", fmt.Sprintf("eio:%d", u("eo", 20000)), fmt.Sprintf("short:%d", 1+u("sr", 100)), "empty-file"}[u("fk", 4)]
				}
				s := &k.Spec{Seed: sd, Params: pp}
				if u("noise", 3) == 0 {
					swarm(s, "client.go:SecureConfig.Check,client.go:Client.Start")
				}
				return s
			})...)
			return out
		},
		Run: runC13,
	})
}

var c13Layouts = []string{"reldir-evil-in-dir", "reldir-trusted-in-dir", "symlink-dotdot-evil", "symlink-dotdot-trusted", "abs-symlink-dotdot-evil", "symlink-to-trusted", "symlink-to-evil", "rel-no-dir"}

// runC13Layout: the file that is checked must be the file that is run. The
// reference is the kernel's own resolution of the command path.
func runC13Layout(r *h.Run) {
	w := r.W
	lay := r.Spec.P("layout", "")
	ctx := "layout=" + lay
	r.Host.Cwd = "/hostcwd"
	for _, d := range []string{"/hostcwd", "/opt", "/opt/app", "/opt/app/store", "/opt/app/store/v2"} {
		w.Mkdir(d)
	}
	install := func(path, kind string) {
		// two different non-plugins: whichever runs fails the handshake, what
		// counts is which one the kernel is asked to run
		r.InstallScript(path, &h.Script{Steps: []h.ScriptStep{h.Out("I am the " + kind + " binary at " + path + "\n")}})
		if n := w.NodeAt(path); n != nil {
			n.Data = []byte("#!" + kind + " contents")
		}
	}
	trustedData := []byte("#!trusted contents")
	path, dir := "", ""
	switch lay {
	case "reldir-evil-in-dir":
		install("/hostcwd/plug", "trusted")
		install("/opt/app/plug", "evil")
		path, dir = "./plug", "/opt/app"
	case "reldir-trusted-in-dir":
		install("/hostcwd/plug", "evil")
		install("/opt/app/plug", "trusted")
		path, dir = "./plug", "/opt/app"
	case "rel-no-dir":
		install("/hostcwd/plug", "trusted")
		path = "./plug"
	case "symlink-dotdot-evil", "symlink-dotdot-trusted", "abs-symlink-dotdot-evil":
		w.Symlink("/opt/app/store/v2", "/opt/app/current")
		lexical, physical := "trusted", "evil"
		if lay == "symlink-dotdot-trusted" {
			lexical, physical = "evil", "trusted"
		}
		install("/opt/app/plug", lexical)
		install("/opt/app/store/plug", physical)
		path, dir = "current/../plug", "/opt/app"
		if lay == "abs-symlink-dotdot-evil" {
			path, dir = "/opt/app/current/../plug", ""
		}
	case "symlink-to-trusted", "symlink-to-evil":
		install("/opt/app/real-trusted", "trusted")
		install("/opt/app/real-evil", "evil")
		w.Symlink("/opt/app/real-"+strings.TrimPrefix(lay, "symlink-to-"), "/opt/app/link")
		path = "/opt/app/link"
	}
	sum := sha256.Sum256(trustedData)
	c := h.Conf{Proto: "netrpc", Path: path, Name: "plugin", Timeout: 3 * time.Second}
	cfg := r.ClientConfig(c)
	cfg.Cmd = simexec.Command(path)
	cfg.Cmd.Dir = dir
	cfg.Cmd.SimName = "plugin"
	cfg.SecureConfig = &plugin.SecureConfig{Checksum: sum[:], Hash: sha256.New()}
	cl := plugin.NewClient(cfg)
	// reference: what the kernel will run
	cwd := dir
	if cwd == "" {
		cwd = r.Host.Cwd
	}
	target := w.Phys(cwd, path)
	tn := w.NodeAt(target)
	wantLaunch := tn != nil && string(tn.Data) == string(trustedData)
	o := r.DoNoHang("Start", 60*time.Second, ctx, func() (any, error) { return cl.Start() })
	if o.Hung {
		return
	}
	p := w.ProcByName("plugin")
	switch {
	case p != nil && !wantLaunch:
		r.Violate("ran-unverified-binary", ctx, fmt.Sprintf("the kernel ran %s, whose contents do not have the configured checksum (Start: %v)", p.Path, o.Err))
	case p == nil && wantLaunch:
		r.Violate("refused-verified-binary", ctx, fmt.Sprintf("the file the kernel would run (%s) has the configured checksum, but nothing was launched: %v", target, o.Err))
	case p != nil && p.Path != target:
		r.Violate("setup", ctx+" resolution", fmt.Sprintf("ran %s, reference says %s", p.Path, target))
	}
	if wantLaunch {
		w.Probe("expect.launch")
	} else {
		w.Probe("expect.refuse")
	}
	r.DoNoHang("Kill", 120*time.Second, ctx, func() (any, error) { cl.Kill(); return nil, nil })
}

// runC13Parallel: overlapping checks must not influence each other.
func runC13Parallel(r *h.Run) {
	w := r.W
	size := r.Spec.PI("size", 100)
	ctx := "parallel-starts"
	genuine := make([]byte, size)
	for i := range genuine {
		genuine[i] = byte(k.H(r.Spec.Seed, "content", i))
	}
	tampered := append([]byte(nil), genuine...)
	for i := range tampered {
		tampered[i] ^= 0x5a
	}
	sum := sha256.Sum256(genuine)
	mk := func(path, name string, data []byte) *plugin.Client {
		c := h.Conf{Proto: "netrpc", Path: path, Name: name}
		r.InstallPlugin(&c)
		nd := w.NodeAt(path)
		nd.Data = data
		if fsf := r.Spec.P("fsfault", ""); strings.HasPrefix(fsf, "short:") {
			fmt.Sscanf(fsf, "short:%d", &nd.ShortRead)
		}
		cfg := r.ClientConfig(c)
		cfg.Cmd = simexec.Command(path)
		cfg.Cmd.SimName = name
		cfg.SecureConfig = &plugin.SecureConfig{Checksum: append([]byte(nil), sum[:]...), Hash: sha256.New()}
		return plugin.NewClient(cfg)
	}
	good := mk("/bin/genuine", "plugin", genuine)
	bad := mk("/bin/tampered", "tampered", tampered)
	var wg sync.WaitGroup
	var og, ob h.Outcome
	wg.Add(2)
	go k.Trap(func() {
		defer wg.Done()
		og = r.Do("Start[genuine]", 90*time.Second, func() (any, error) { return good.Start() })
	})
	go k.Trap(func() {
		defer wg.Done()
		ob = r.Do("Start[tampered]", 90*time.Second, func() (any, error) { return bad.Start() })
	})
	wg.Wait()
	if og.Hung || ob.Hung {
		r.Violate("hang", "op=Start "+ctx, r.HostStacks("goplugin"))
		return
	}
	if w.ProcByName("tampered") != nil || ob.Err == nil {
		r.Violate("ran-unverified-binary", ctx, fmt.Sprintf("a tampered copy was executed under the genuine checksum while the genuine binary was being checked at the same time (Start: %v)", ob.Err))
	} else if !errors.Is(ob.Err, plugin.ErrChecksumsDoNotMatch) {
		r.Violate("wrong-error", ctx, fmt.Sprintf("want %v, got %v", plugin.ErrChecksumsDoNotMatch, ob.Err))
	}
	if w.ProcByName("plugin") == nil || og.Err != nil {
		r.Violate("refused-verified-binary", ctx, fmt.Sprintf("the genuine binary was refused while another check ran at the same time: %v", og.Err))
	}
	w.Probe("expect.launch")
	w.Probe("expect.refuse")
	r.DoNoHang("Kill", 120*time.Second, ctx, func() (any, error) { good.Kill(); bad.Kill(); return nil, nil })
}

func runC13(r *h.Run) {
	if r.Spec.P("parallel", "") != "" {
		runC13Parallel(r)
		return
	}
	if r.Spec.P("layout", "") != "" {
		runC13Layout(r)
		return
	}
	w := r.W
	hn, sumMode, fsf := r.Spec.P("hash", "sha256"), r.Spec.P("sum", "exact"), r.Spec.P("fsfault", "")
	size := r.Spec.PI("size", 100)
	ctx := fmt.Sprintf("hash=%s checksum=%s fs=%s", hn, strings.SplitN(sumMode, ":", 2)[0], strings.SplitN(fsf, ":", 2)[0])
	c := h.Conf{Proto: "netrpc", Path: "/bin/secured", Name: "plugin"}
	r.InstallPlugin(&c)
	contents := make([]byte, size)
	for i := range contents {
		contents[i] = byte(k.H(r.Spec.Seed, "content", i))
	}
	if fsf == "empty-file" {
		contents = nil
	}
	node := w.NodeAt("/bin/secured")
	node.Data = contents
	readFails := false
	switch {
	case fsf == "missing":
		// the command path does not exist
		c.Path = "/bin/nonexistent"
		readFails = true
	case strings.HasPrefix(fsf, "eio:"):
		var off int
		fmt.Sscanf(fsf, "eio:%d", &off)
		if off <= len(contents) {
			node.ReadErrAt = off
			readFails = true
		}
	case strings.HasPrefix(fsf, "short:"):
		fmt.Sscanf(fsf, "short:%d", &node.ShortRead)
	}
	digest := func(name string, data []byte) []byte {
		hh := mkHash(name)
		if hh == nil {
			hh = sha256.New()
		}
		hh.Write(data)
		return hh.Sum(nil)
	}
	if strings.HasPrefix(sumMode, "endswith:") || strings.HasPrefix(sumMode, "startswith:") {
		// search contents whose digest ends / starts with the given byte
		var want byte
		fmt.Sscanf(sumMode[strings.Index(sumMode, ":")+1:], "%02x", &want)
		for n := 0; n < 20000; n++ {
			cand := append([]byte(fmt.Sprintf("#%d\n", n)), contents...)
			d := digest(hn, cand)
			if (strings.HasPrefix(sumMode, "endswith:") && d[len(d)-1] == want) || (strings.HasPrefix(sumMode, "startswith:") && d[0] == want) {
				contents = cand
				node.Data = contents
				break
			}
		}
	}
	good := digest(hn, contents)
	var sum []byte
	matches := false
	switch {
	case sumMode == "exact":
		sum = good
		matches = true
	case sumMode == "empty":
		sum = nil
	case sumMode == "empty-nonnil":
		// the empty byte string as decoding an empty configuration value yields it
		sum, _ = hex.DecodeString("")
	case sumMode == "empty-prefix":
		sum = good[:0]
	case sumMode == "other":
		sum = digest(hn, append([]byte("x"), contents...))
	case sumMode == "otherhash":
		if hn == "sha256" {
			sum = digest("sha512", contents)
		} else {
			sum = digest("sha256", contents)
		}
	case strings.HasPrefix(sumMode, "flip:"):
		var b int
		fmt.Sscanf(sumMode, "flip:%d", &b)
		sum = append([]byte(nil), good...)
		sum[(b/8)%len(sum)] ^= 1 << uint(b%8)
	case strings.HasPrefix(sumMode, "prefix:"):
		var l int
		fmt.Sscanf(sumMode, "prefix:%d", &l)
		if l >= len(good) {
			l = len(good) - 1
		}
		sum = append([]byte(nil), good[:l]...)
	case strings.HasPrefix(sumMode, "endswith:"), strings.HasPrefix(sumMode, "startswith:"):
		sum = good
		matches = true
	case strings.HasPrefix(sumMode, "tail:"), strings.HasPrefix(sumMode, "head:"):
		var extra []byte
		fmt.Sscanf(sumMode[5:], "%x", &extra)
		if strings.HasPrefix(sumMode, "tail:") {
			sum = append(append([]byte(nil), good...), extra...)
		} else {
			sum = append(append([]byte(nil), extra...), good...)
		}
	case strings.HasPrefix(sumMode, "extend:"):
		var e int
		fmt.Sscanf(sumMode, "extend:%d", &e)
		sum = append(append([]byte(nil), good...), make([]byte, e)...)
	}
	cfg := r.ClientConfig(c)
	cfg.Cmd = simexec.Command(c.Path)
	cfg.Cmd.SimName = "plugin"
	cfg.SecureConfig = &plugin.SecureConfig{Checksum: sum, Hash: mkHash(hn)}
	runnerCalls := 0
	if r.Spec.P("launch", "cmd") == "runner" {
		// a custom runner instead of a command: there is no command path whose
		// file could be checked, so with a SecureConfig nothing may be launched
		// at all - whatever the checksum - and the runner is never asked
		ctx += " launch=runner"
		rc := c
		rc.Launch = "runner"
		inner := r.ClientConfig(rc).RunnerFunc
		cfg.Cmd = nil
		cfg.RunnerFunc = func(l hclog.Logger, cmd *simexec.Cmd, tmpDir string) (runner.Runner, error) {
			runnerCalls++
			return inner(l, cmd, tmpDir)
		}
		matches = false
	}
	cl := plugin.NewClient(cfg)

	// kernel invariant: no spawn before the file was read to its end
	o := r.DoNoHang("Start", 90*time.Second, ctx, func() (any, error) { return cl.Start() })
	if o.Hung {
		return
	}
	spawned := w.ProcByName("plugin") != nil
	if runnerCalls > 0 {
		r.Violate("ran-unverified-binary", ctx+" runner-asked", fmt.Sprintf("a SecureConfig is set and there is no command path to verify, yet the custom runner was asked to launch (%d calls; Start err: %v)", runnerCalls, o.Err))
	}
	wantSpawn := matches && hn != "nil" && !readFails && len(sum) > 0
	switch {
	case spawned && !wantSpawn:
		r.Violate("ran-unverified-binary", ctx, fmt.Sprintf("the binary was executed although checksum=%s hash=%s fsfault=%q (Start err: %v)", sumMode, hn, fsf, o.Err))
	case !spawned && wantSpawn:
		r.Violate("refused-verified-binary", ctx, fmt.Sprintf("checksum matches but nothing was launched: %v", o.Err))
	}
	if wantSpawn {
		w.Probe("expect.launch")
		if o.Err != nil {
			r.Violate("refused-verified-binary", ctx+" start-error", o.Err.Error())
		}
	} else {
		w.Probe("expect.refuse")
		if o.Err == nil {
			r.Violate("ran-unverified-binary", ctx+" start-ok", "Start succeeded")
		} else if r.Spec.P("launch", "cmd") == "runner" {
			// (which error: not specified for a client without a command path)
		} else {
			var want error
			switch {
			case len(sum) == 0:
				want = plugin.ErrSecureConfigNoChecksum
			case hn == "nil":
				want = plugin.ErrSecureConfigNoHash
			case readFails:
				want = nil // wrapped I/O error: any error but the three sentinels
			default:
				want = plugin.ErrChecksumsDoNotMatch
			}
			switch {
			case want == nil:
				if errors.Is(o.Err, plugin.ErrChecksumsDoNotMatch) {
					r.Violate("wrong-error", ctx, "read failure reported as checksum mismatch: "+o.Err.Error())
				}
			case want == plugin.ErrChecksumsDoNotMatch:
				if !errors.Is(o.Err, want) {
					r.Violate("wrong-error", ctx, fmt.Sprintf("want %v, got %v", want, o.Err))
				}
			default:
				// go-plugin wraps these two with %s, so errors.Is cannot see them; the text must name them
				if !errors.Is(o.Err, want) && !strings.Contains(o.Err.Error(), want.Error()) {
					r.Violate("wrong-error", ctx, fmt.Sprintf("want %v, got %v", want, o.Err))
				}
			}
		}
	}
	_ = plugins.Handshake
	r.DoNoHang("Kill", 120*time.Second, ctx, func() (any, error) { cl.Kill(); return nil, nil })
	// a transient read error, then the same SecureConfig value is used again
	// once the file reads fine: what the failed attempt left behind must not
	// decide the second one
	if strings.HasPrefix(fsf, "eio:") && readFails && !spawned {
		node.ReadErrAt = -1
		rctx := ctx + " retry-after-read-error"
		wantRetry := matches && hn != "nil" && len(sum) > 0
		cfg2 := r.ClientConfig(c)
		cfg2.Cmd = simexec.Command(c.Path)
		cfg2.Cmd.SimName = "plugin2"
		cfg2.SecureConfig = cfg.SecureConfig
		cl2 := plugin.NewClient(cfg2)
		o2 := r.DoNoHang("Start(retry)", 90*time.Second, rctx, func() (any, error) { return cl2.Start() })
		spawned2 := w.ProcByName("plugin2") != nil
		w.Probe("retry-after-read-error")
		switch {
		case spawned2 && !wantRetry:
			r.Violate("ran-unverified-binary", rctx, fmt.Sprintf("after a failed read the same SecureConfig let a file run whose digest does not match (err %v)", o2.Err))
		case !spawned2 && wantRetry:
			r.Violate("refused-verified-binary", rctx, fmt.Sprintf("after a failed read (healed since) the same SecureConfig refused the matching file: %v", o2.Err))
		}
		r.DoNoHang("Kill(retry)", 120*time.Second, rctx, func() (any, error) { cl2.Kill(); return nil, nil })
	}
	// the same SecureConfig value used for a second client (a host that launches
	// the same verified binary again)
	if sc := r.Spec.P("shared", ""); sc != "" && wantSpawn && spawned {
		sctx := ctx + " second-client=" + sc
		wantSecond := true
		switch sc {
		case "shared-rewritten", "shared-rewritten-keepmtime":
			// same inode, same length, other contents
			nd := append([]byte(nil), node.Data...)
			for i := range nd {
				nd[i] ^= 0x5a
			}
			node.Data = nd
			if sc == "shared-rewritten" {
				node.MTime = node.MTime.Add(time.Hour)
			}
			wantSecond = false
		case "shared-checksum-changed":
			cfg.SecureConfig.Checksum = append([]byte(nil), cfg.SecureConfig.Checksum...)
			cfg.SecureConfig.Checksum[0] ^= 1
			wantSecond = false
		}
		cfg2 := r.ClientConfig(c)
		cfg2.Cmd = simexec.Command(c.Path)
		cfg2.Cmd.SimName = "plugin2"
		cfg2.SecureConfig = cfg.SecureConfig
		cl2 := plugin.NewClient(cfg2)
		o2 := r.DoNoHang("Start(second)", 90*time.Second, sctx, func() (any, error) { return cl2.Start() })
		spawned2 := w.ProcByName("plugin2") != nil
		switch {
		case spawned2 && !wantSecond:
			r.Violate("ran-unverified-binary", sctx, fmt.Sprintf("second client with the same SecureConfig executed a file whose digest no longer matches (err %v)", o2.Err))
		case !spawned2 && wantSecond:
			r.Violate("refused-verified-binary", sctx, fmt.Sprintf("second client with the same SecureConfig and an unchanged, matching file was refused: %v", o2.Err))
		}
		r.DoNoHang("Kill(second)", 120*time.Second, sctx, func() (any, error) { cl2.Kill(); return nil, nil })
	}
}
