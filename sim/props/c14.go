package props

import (
	"crypto/tls"
	"crypto/x509"
	"encoding/pem"
	"errors"
	"fmt"
	"strings"
	"time"

	plugin "simworld/goplugin"
	"simworld/goplugin/runner"
	"simworld/h"
	"simworld/k"
	"simworld/plugins"
	"simworld/shim/simexec"

	hclog "github.com/hashicorp/go-hclog"
)

// C14: host and plugin configurations interoperate exactly when compatible.

var c14TLS = []string{"none", "static", "host-only", "plugin-only", "mismatch", "auto"}
var c14Allowed = []string{"default", "netrpc", "grpc", "both"}

func c14Cells() []map[string]string {
	var cells []map[string]string
	for _, proto := range []string{"netrpc", "grpc"} {
		for _, t := range c14TLS {
			for _, hm := range []string{"0", "1"} {
				for _, old := range []string{"0", "1"} {
					for _, launch := range []string{"cmd", "runner", "reattach"} {
						for _, al := range c14Allowed {
							if launch == "reattach" && t == "auto" {
								continue // documented: AutoMTLS cannot be used with Reattach
							}
							if old == "1" && hm == "0" {
								continue // an old plugin differs only when multiplexing is requested
							}
							cells = append(cells, P("proto", proto, "tlsmode", t, "hostmux", hm, "oldplugin", old, "launch", launch, "allowed", al))
						}
					}
				}
			}
		}
	}
	return cells
}

func init() {
	Register(&Prop{ID: "C14",
		Meta: Meta{Level: "exploration",
			Rule:       "cross product wire protocol {net/rpc, gRPC} x transport security {none, static TLS on both sides, static on the host only, on the plugin only, static with mismatched CA, AutoMTLS} x host requests multiplexing {no, yes} x plugin {current, old: does not know the multiplexing variable} x launch {command, custom runner, reattach} x allowed-protocol list {default, net/rpc, gRPC, both} (all valid cells, about 500, in both tiers; thorough adds seeded schedule noise and an 8MiB response); each cell is judged by a compatibility predicate written from the statement: works (start, dispense, call, brokered callback in both directions, ping, 1-8MiB response, unknown plugin name -> error) | start error of the documented kind with the plugin terminated (protocol not allowed, multiplexing unsupported -> ErrGRPCBrokerMuxNotSupported, multiplexing with reattach) | first-use error (any transport-security mismatch) with no call ever answered; never a hang or panic",
			Exhaustive: "all valid cells of the protocol x TLS x mux x old/new plugin x launch x allowed-list product"},
		Plan: func(tier string, seed uint64, stage int, prev []*h.Result) []*k.Spec {
			if stage > 0 {
				return nil
			}
			cells := c14Cells()
			if tier == "selftest" {
				return seeded("C14", seed, 4, func(i int, sd uint64) *k.Spec {
					return &k.Spec{Params: cp(cells[int(k.H(sd, "cell", 0)%uint64(len(cells)))])}
				})
			}
			var out []*k.Spec
			for i, c := range cells {
				out = append(out, sp("C14", fmt.Sprintf("cell/%d/%s/%s/m%s/o%s/%s/%s", i, c["proto"], c["tlsmode"], c["hostmux"], c["oldplugin"], c["launch"], c["allowed"]), seed, c))
			}
			n := 200
			if tier == "thorough" {
				n = 60000
			}
			out = append(out, seeded("C14", seed, n, func(i int, sd uint64) *k.Spec {
				s := &k.Spec{Seed: sd, Params: cp(cells[int(k.H(sd, "cell", 0)%uint64(len(cells)))])}
				if tier == "thorough" && i%50 == 0 {
					s.Params["big"] = "8388608"
				}
				swarm(s, "client.go:Client.Start,client.go:Client.Client,server.go:Serve,grpc_client.go,rpc_client.go")
				if s.DelayClass == "big" {
					s.DelayClass = "mid"
				}
				return s
			})...)
			return out
		},
		Run: runC14,
	})
}

func poolOf(certPEM []byte) *x509.CertPool {
	p := x509.NewCertPool()
	p.AppendCertsFromPEM(certPEM)
	return p
}

var _ = pem.Decode

func runC14(r *h.Run) {
	w := r.W
	sp := r.Spec
	proto, tlsMode, hostMux, oldPlugin := sp.P("proto", "grpc"), sp.P("tlsmode", "none"), sp.P("hostmux", "0") == "1", sp.P("oldplugin", "0") == "1"
	launch, allowed := sp.P("launch", "cmd"), sp.P("allowed", "both")
	ctx := fmt.Sprintf("proto=%s tls=%s hostmux=%v oldplugin=%v launch=%s allowed=%s", proto, tlsMode, hostMux, oldPlugin, launch, allowed)

	// ---- expected class, from the statement ----
	allowedSet := map[string]bool{}
	switch allowed {
	case "default", "netrpc":
		allowedSet["netrpc"] = true
	case "grpc":
		allowedSet["grpc"] = true
	case "both":
		allowedSet["netrpc"], allowedSet["grpc"] = true, true
	}
	expect := "works"
	switch {
	case hostMux && launch == "reattach":
		expect = "start-error:mux-reattach"
	case launch != "reattach" && !allowedSet[proto]:
		expect = "start-error:protocol"
	case launch != "reattach" && hostMux && proto == "grpc" && oldPlugin:
		expect = "start-error:mux-unsupported"
	case tlsMode == "host-only" || tlsMode == "plugin-only" || tlsMode == "mismatch":
		expect = "first-use-error"
	}
	// reattach does not negotiate: the client trusts the ReattachConfig's protocol
	effMux := hostMux && proto == "grpc" && launch != "reattach"

	// ---- certificates ----
	// go-plugin uses one tls.Config per side for both roles (the side that
	// accepts a brokered connection serves with it, the side that dials uses it
	// as a client), so a working static configuration carries a certificate
	// and the peer's certificate as root on both sides
	pluginCert, pluginKey := h.SelfSignedPEM()
	hostCert, hostKey := h.SelfSignedPEM()
	otherCert, _ := h.SelfSignedPEM()
	hostPair, _ := tls.X509KeyPair(hostCert, hostKey)
	var hostTLS *tls.Config
	switch tlsMode {
	case "static", "host-only":
		hostTLS = &tls.Config{Certificates: []tls.Certificate{hostPair}, RootCAs: poolOf(pluginCert), ServerName: "localhost", MinVersion: tls.VersionTLS12}
	case "mismatch":
		hostTLS = &tls.Config{Certificates: []tls.Certificate{hostPair}, RootCAs: poolOf(otherCert), ServerName: "localhost", MinVersion: tls.VersionTLS12}
	}
	pluginHasTLS := tlsMode == "static" || tlsMode == "plugin-only" || tlsMode == "mismatch"

	sh := plugins.NewShared("v1/" + proto)
	c := h.Conf{Proto: proto, Mux: hostMux, Name: "plugin", Sh: sh, Launch: "cmd"}
	if launch == "runner" {
		c.Launch = "runner"
	}
	if tlsMode == "auto" {
		c.TLS = "auto"
	}
	c.TweakServe = func(sc *plugin.ServeConfig) {
		if pluginHasTLS {
			sc.TLSProvider = func() (*tls.Config, error) {
				pair, err := tls.X509KeyPair(pluginCert, pluginKey)
				if err != nil {
					return nil, err
				}
				return &tls.Config{Certificates: []tls.Certificate{pair}, RootCAs: poolOf(hostCert), ServerName: "localhost", MinVersion: tls.VersionTLS12}, nil
			}
		}
	}
	c.TweakClient = func(cc *plugin.ClientConfig) {
		cc.TLSConfig = hostTLS
		switch allowed {
		case "default":
			cc.AllowedProtocols = nil
		case "netrpc":
			cc.AllowedProtocols = []plugin.Protocol{plugin.ProtocolNetRPC}
		case "grpc":
			cc.AllowedProtocols = []plugin.Protocol{plugin.ProtocolGRPC}
		}
		cc.StartTimeout = 20 * time.Second
		if oldPlugin {
			// an old plugin does not know PLUGIN_MULTIPLEX_GRPC: take it out of what it sees
			if cc.Cmd != nil {
				path := cc.Cmd.Path
				cc.Cmd = nil
				cc.RunnerFunc = func(l hclog.Logger, cmd *simexec.Cmd, tmpDir string) (runner.Runner, error) {
					cmd.Path, cmd.Args, cmd.SimName = path, []string{path}, "plugin"
					cmd.Env = stripEnv(cmd.Env, "PLUGIN_MULTIPLEX_GRPC")
					return h.NewSimRunner(r, cmd, tmpDir, false)
				}
			} else if rf := cc.RunnerFunc; rf != nil {
				cc.RunnerFunc = func(l hclog.Logger, cmd *simexec.Cmd, tmpDir string) (runner.Runner, error) {
					cmd.Env = stripEnv(cmd.Env, "PLUGIN_MULTIPLEX_GRPC")
					return rf(l, cmd, tmpDir)
				}
			}
		}
	}
	if tlsMode == "static" || tlsMode == "auto" {
		r.WatchPlaintext(ctx)
	}
	r.InstallPlugin(&c)
	var cl *plugin.Client
	var first *plugin.Client
	if launch == "reattach" {
		// somebody else launched it (plain configuration that can start it), we attach
		lc := c
		lc.Mux = false
		lc.TweakClient = func(cc *plugin.ClientConfig) { cc.TLSConfig = hostTLS; cc.StartTimeout = 20 * time.Second }
		first = r.NewClient(lc)
		if o := r.DoNoHang("Launcher.Start", 90*time.Second, ctx, func() (any, error) { return first.Start() }); o.Err != nil || o.Hung {
			r.Violate("setup", "launcher start "+ctx, fmt.Sprint(o.Err))
			return
		}
		rc := first.ReattachConfig()
		cfg := r.ClientConfig(c)
		cfg.Cmd, cfg.RunnerFunc, cfg.Reattach = nil, nil, rc
		cl = plugin.NewClient(cfg)
	} else {
		cl = r.NewClient(c)
	}
	defer func() {
		r.DoNoHang("Kill", 150*time.Second, ctx, func() (any, error) { cl.Kill(); return nil, nil })
		if first != nil {
			r.DoNoHang("Launcher.Kill", 150*time.Second, ctx, func() (any, error) { first.Kill(); return nil, nil })
		}
	}()
	quiet := w.InjectedTotal
	so := r.DoNoHang("Start", 90*time.Second, ctx, func() (any, error) { return cl.Start() })
	if so.Hung {
		return
	}
	plug := w.ProcByName("plugin")
	if strings.HasPrefix(expect, "start-error") {
		w.Probe("expect." + expect)
		if so.Err == nil {
			r.Violate("incompatible-accepted", ctx+" expect="+expect, "Start succeeded")
			return
		}
		switch expect {
		case "start-error:mux-unsupported":
			if !errors.Is(so.Err, plugin.ErrGRPCBrokerMuxNotSupported) {
				r.Violate("wrong-error", ctx+" expect="+expect, so.Err.Error())
			}
		case "start-error:protocol":
			if !strings.Contains(so.Err.Error(), "Unsupported plugin protocol") {
				r.Violate("wrong-error", ctx+" expect="+expect, so.Err.Error())
			}
		}
		if launch != "reattach" && plug != nil {
			time.Sleep(time.Second)
			if plug.Alive() {
				r.Violate("process-left-behind", ctx+" expect="+expect, "the refused plugin is still running")
			}
		}
		// a refused pairing stays refused: the same client asked again must not
		// hand out the connection it refused
		if launch != "reattach" {
			s2 := r.DoNoHang("Start#2", 90*time.Second, ctx, func() (any, error) { return cl.Start() })
			if !s2.Hung && s2.Err == nil {
				r.Violate("incompatible-accepted", ctx+" expect="+expect+" second-start", fmt.Sprintf("the first Start refused the plugin (%v), the second Start on the same client succeeded", so.Err))
			}
			if expect == "start-error:mux-unsupported" && s2.Err != nil && !errors.Is(s2.Err, plugin.ErrGRPCBrokerMuxNotSupported) {
				// asked again, the client still fails with the dedicated error
				r.Violate("wrong-error", ctx+" expect="+expect+" second-start", s2.Err.Error())
			}
			if p := cl.Protocol(); p != plugin.ProtocolInvalid && s2.Err != nil {
				r.Violate("incompatible-accepted", ctx+" expect="+expect+" protocol-after-refusal", fmt.Sprintf("a client whose Start was refused reports protocol %q", p))
			}
			if rc := cl.ReattachConfig(); rc != nil {
				r.Violate("incompatible-accepted", ctx+" expect="+expect+" reattach-config-after-refusal", "a client whose Start was refused hands out a ReattachConfig")
			}
			c2 := r.DoNoHang("Client(after-refusal)", 90*time.Second, ctx, func() (any, error) { return cl.Client() })
			if !c2.Hung && c2.Err == nil {
				r.Violate("incompatible-accepted", ctx+" expect="+expect+" client-after-refusal", "Client() on a client whose Start was refused returned a client")
			}
			r.DoNoHang("Kill(after-refusal)", 120*time.Second, ctx, func() (any, error) { cl.Kill(); return nil, nil })
		}
		return
	}
	if so.Err != nil {
		r.Violate("compatible-rejected", ctx+" expect="+expect, "Start failed: "+so.Err.Error())
		return
	}
	if got := string(cl.Protocol()); got != proto {
		r.Violate("wrong-protocol", ctx, fmt.Sprintf("client speaks %q, plugin %q", got, proto))
	}
	if launch != "reattach" && !allowedSet[string(cl.Protocol())] {
		r.Violate("disallowed-protocol-spoken", ctx, string(cl.Protocol()))
	}
	// use it
	answered := 0
	var firstErr error
	note := func(err error) {
		if err != nil && firstErr == nil {
			firstErr = err
		}
	}
	var cmd plugins.Cmd
	uo := r.DoNoHang("Client+Dispense", 120*time.Second, ctx, func() (any, error) {
		cp, err := cl.Client()
		if err != nil {
			return nil, err
		}
		return cp.Dispense(h.PluginName)
	})
	if uo.Hung {
		return
	}
	note(uo.Err)
	if uo.Err == nil {
		cmd = uo.Val.(plugins.Cmd)
	}
	call := func(name string, f func() (any, error)) (any, error) {
		o := r.DoNoHang(name, 120*time.Second, ctx, f)
		if o.Hung {
			return nil, errors.New("hung")
		}
		note(o.Err)
		if o.Err == nil {
			answered++
		}
		return o.Val, o.Err
	}
	bigN := sp.PI("big", 1<<20)
	if cmd != nil {
		call("Do(tag)", func() (any, error) { return cmd.Do("tag", "") })
		if v, err := call("Do(big)", func() (any, error) { return cmd.Do("big", fmt.Sprint(bigN)) }); err == nil && len(v.(string)) != bigN {
			r.Violate("truncated-response", ctx, fmt.Sprintf("asked for %d bytes, got %d", bigN, len(v.(string))))
		}
		call("Ping", func() (any, error) { cp, _ := cl.Client(); return nil, cp.Ping() })
		// brokered callbacks in both directions
		if expect == "works" {
			cmd.Do("accept", "900")
			if v, err := call("HostDial(900)", func() (any, error) { return h.HostDialPing(cmd, 900) }); err == nil && v.(string) != "id=900" {
				r.Violate("misroute", ctx, fmt.Sprint(v))
			}
			h.HostAccept(r, cmd, 901)
			if v, err := call("PluginDial(901)", func() (any, error) { return cmd.Do("dial", "901") }); err == nil && v.(string) != "id=901" {
				r.Violate("misroute", ctx, fmt.Sprint(v))
			}
			// large responses over brokered connections, both ways (gRPC's default limit is 4MiB)
			if gc, ok := cmd.(*plugins.GRPCClient); ok {
				const brokeredBig = 5 << 20
				cmd.Do("accept", "902")
				if v, err := call("HostDialBig(902)", func() (any, error) {
					conn, err := gc.Broker.Dial(902)
					if err != nil {
						return nil, err
					}
					defer conn.Close()
					return plugins.BigOverConn(conn, brokeredBig, 60*time.Second)
				}); err == nil && v.(int) != brokeredBig {
					r.Violate("truncated-response", ctx+" brokered host->plugin", fmt.Sprint(v))
				}
				h.HostAccept(r, cmd, 903)
				if v, err := call("PluginDialBig(903)", func() (any, error) { return cmd.Do("dialbig", fmt.Sprintf("903:%d", brokeredBig)) }); err == nil && v.(string) != fmt.Sprint(brokeredBig) {
					r.Violate("truncated-response", ctx+" brokered plugin->host", fmt.Sprint(v))
				}
			}
		}
	}
	switch expect {
	case "works":
		w.Probe("expect.works")
		if firstErr != nil && quiet() < 2*time.Second {
			r.Violate("compatible-failed", ctx, fmt.Sprintf("the configurations are compatible but an operation failed: %v", firstErr))
		}
		// unknown plugin name
		o := r.DoNoHang("Dispense(unknown)", 60*time.Second, ctx, func() (any, error) {
			cp, err := cl.Client()
			if err != nil {
				return nil, nil
			}
			_, err = cp.Dispense("no-such-plugin")
			if err == nil {
				return nil, errors.New("dispensing an unknown plugin name succeeded")
			}
			return nil, nil
		})
		if o.Err != nil {
			r.Violate("unknown-plugin-dispensed", ctx, o.Err.Error())
		}
		if effMux && w.FaultCount("conn.rst") == 0 {
			w.Probe("works.mux")
		}
	case "first-use-error":
		w.Probe("expect.first-use-error")
		if answered > 0 {
			r.Violate("security-mismatch-served", ctx, fmt.Sprintf("%d calls were answered although the transport-security settings of host and plugin do not match", answered))
		}
		if firstErr == nil {
			r.Violate("security-mismatch-served", ctx+" no-error", "no operation reported an error")
		}
	}
}

func stripEnv(env []string, key string) []string {
	var out []string
	for _, kv := range env {
		if strings.HasPrefix(kv, key+"=") {
			continue
		}
		out = append(out, kv)
	}
	return out
}
