package props

import (
	"bytes"
	"encoding/base64"
	"encoding/json"
	"fmt"
	"strings"
	"time"

	plugin "simworld/goplugin"
	"simworld/h"
	"simworld/k"
	"simworld/plugins"
	"simworld/shim/simexec"

	hclog "github.com/hashicorp/go-hclog"
)

// C10: plugin output never crashes or stalls the host; stderr is forwarded faithfully.

type c10Line struct {
	Text   string // without terminator
	Term   string // "\n", "\r\n" or "" (last line only)
	Class  string
	Level  string // expected level ("" = not checked)
	Msg    string // expected message
	KV     map[string]string
	Strict bool // record is checked
}

func c10Gen(class int, sub int, bufsize int, i int) c10Line {
	pad := func(n int, c byte) string {
		if n < 0 {
			n = 0
		}
		return strings.Repeat(string(c), n)
	}
	switch class {
	case 0:
		t := fmt.Sprintf("plain line %d with some text", i)
		return c10Line{Text: t, Class: "text", Level: "debug", Msg: t, Strict: true}
	case 1:
		lv := []string{"TRACE", "DEBUG", "INFO", "WARN", "ERROR"}[sub%5]
		t := fmt.Sprintf("[%s] prefixed line %d", lv, i)
		return c10Line{Text: t, Class: "prefix", Level: strings.ToLower(lv), Msg: t, Strict: true}
	case 2:
		lv := []string{"trace", "debug", "info", "warn", "error"}[sub%5]
		t := fmt.Sprintf(`{"@level":"%s","@message":"json message %d","@timestamp":"2020-01-02T03:04:05.000000Z","key%d":"value","n":%d}`, lv, i, i, i)
		return c10Line{Text: t, Class: "hclog-json", Level: lv, Msg: fmt.Sprintf("json message %d", i), KV: map[string]string{fmt.Sprintf("key%d", i): "value", "n": fmt.Sprint(i)}, Strict: true}
	case 3:
		t := []string{`{"@message":1}`, `{"@level":7,"@message":"x"}`, `{"@message":"x","@level":"info","@timestamp":12345}`, `{"@message":null}`, `{"@level":{"a":1}}`, `{"@message":["a"],"@level":"warn"}`, `{"@timestamp":false}`}[sub%7]
		return c10Line{Text: t, Class: "json-wrong-types"}
	case 4:
		t := []string{`[1,2,3]`, `42`, `"just a string"`, `null`, `true`}[sub%5]
		return c10Line{Text: t, Class: "json-non-object", Level: "debug", Msg: t, Strict: true}
	case 5:
		t := fmt.Sprintf(`{"foo":"bar","i":%d}`, i)
		return c10Line{Text: t, Class: "json-no-level", Level: "debug", Msg: t, Strict: true}
	case 6:
		t := []string{"panic: runtime error: boom", "goroutine 1 [running]:", "main.main()", "\t/src/main.go:12 +0x1d"}[sub%4]
		return c10Line{Text: t, Class: "panic-trace"}
	case 7:
		n := []int{bufsize - 1, bufsize, bufsize + 1, 3*bufsize + 5, 2 * bufsize}[sub%5]
		return c10Line{Text: pad(n, byte('a'+i%26)), Class: "long"}
	case 8:
		t := fmt.Sprintf("crlf line %d", i)
		return c10Line{Text: t, Term: "\r\n", Class: "crlf", Level: "debug", Msg: t, Strict: true}
	case 9:
		return c10Line{Text: "", Class: "empty", Level: "debug", Msg: "", Strict: true}
	case 10:
		return c10Line{Text: "nul\x00and\xffhigh\xfebytes", Class: "binary"}
	case 11:
		t := `{"@level":"info","@message":"bad ts","@timestamp":"yesterday"}`
		return c10Line{Text: t, Class: "json-bad-timestamp", Level: "debug", Msg: t, Strict: true}
	}
	return c10Line{Text: "x", Class: "text", Level: "debug", Msg: "x", Strict: true}
}

const c10Classes = 12

func init() {
	Register(&Prop{ID: "C10",
		Meta: Meta{Level: "exploration",
			Rule:       "scripted plugin: valid handshake, then a byte script on its real stderr (text lines, [LEVEL] prefixes, panic traces, hclog JSON with key/values, JSON with ill-typed @message/@level/@timestamp, non-object JSON, JSON without level, lines of length bufsize-1/bufsize/bufsize+1/3*bufsize+5, CRLF, empty lines, NUL/high bytes, missing final newline) and on its stdout (0..300KB, lines up to 200KB), written in drawn chunk sizes through pipes of capacity 1B..64KB, PluginLogBufferSize drawn from {16,64,256,4096,default}; every (line class, sub-variant) x buffer size enumerated alone and after a panic line, plus seeded mixes of 1-12 lines. Oracle: the script finishes writing within 60s simulated (never blocked by back-pressure), no host panic, ClientConfig.Stderr received the same lines byte for byte and in order (terminators normalised to LF), and for every line shorter than the buffer the logger received one record whose level, message and key/values match a reference reading written from the property statement",
			Exhaustive: "every line class and sub-variant x 5 log buffer sizes, alone and inside a panic trace, under a host logger at Trace and (subset, fixed cells only) at Debug/Info/Warn/Error; stdout volumes {0, 1 line, 64KB-1, 64KB+1, 200KB line, 300KB of short lines}"},
		Plan: func(tier string, seed uint64, stage int, prev []*h.Result) []*k.Spec {
			if stage > 0 {
				return nil
			}
			var out []*k.Spec
			bufs := []string{"16", "64", "256", "4096", "0"}
			if tier != "selftest" {
				for _, b := range bufs {
					for cl := 0; cl < c10Classes; cl++ {
						for sub := 0; sub < 7; sub++ {
							if sub >= 5 && cl != 3 {
								continue
							}
							if sub >= 1 && (cl == 0 || cl == 5 || cl == 8 || cl == 9 || cl == 10 || cl == 11) {
								continue
							}
							for _, ctxl := range []string{"alone", "after-panic", "last-no-newline"} {
								out = append(out, sp("C10", fmt.Sprintf("line/b%s/c%d.%d/%s", b, cl, sub, ctxl), seed, P("buf", b, "fixed", fmt.Sprintf("%d.%d", cl, sub), "ctx", ctxl)))
							}
						}
					}
					if b == "4096" || b == "64" {
						// the same lines under a host logger that is not at Trace
						for _, lv := range []string{"debug", "info", "warn", "error"} {
							for _, fx := range []string{"0.0", "1.2", "1.4", "2.3", "2.4", "6.0", "6.1", "6.2", "6.3", "8.0"} {
								for _, ctxl := range []string{"alone", "after-panic"} {
									out = append(out, sp("C10", fmt.Sprintf("line/b%s/c%s/%s/host-%s", b, fx, ctxl, lv), seed, P("buf", b, "fixed", fx, "ctx", ctxl, "loglevel", lv)))
								}
							}
						}
					}
					for _, so := range []string{"1line", "64k-1", "64k+1", "200kline", "300kshort", "nonl"} {
						out = append(out, sp("C10", fmt.Sprintf("stdout/b%s/%s", b, so), seed, P("buf", b, "stdout", so)))
					}
				}
			}
			if tier != "selftest" {
				for _, b := range bufs {
					for _, hm := range []string{"bad-after", "none-exit"} {
						for _, bulk := range []string{"3", "40", "300"} {
							for v := 0; v < 3; v++ {
								sp0 := sp("C10", fmt.Sprintf("failed-start/b%s/%s/n%s/%d", b, hm, bulk, v), seed+uint64(v)*7919, P("buf", b, "hs", hm, "bulk", bulk))
								if v > 0 {
									sp0.Faults = "pipe.chunk,pipe.smallbuf"
									sp0.HotPermille, sp0.DelayClass = 100, "tiny"
								}
								out = append(out, sp0)
							}
						}
					}
				}
			}
			n := 800
			if tier == "thorough" {
				n = 200000
			}
			if tier == "selftest" {
				n = 6
			}
			out = append(out, seeded("C10", seed, n, func(i int, sd uint64) *k.Spec {
				u := func(tag string, n int) int { return int(k.H(sd, tag, 0) % uint64(n)) }
				s := &k.Spec{Seed: sd, Params: P("buf", bufs[u("buf", 5)], "random", "1", "stdout", []string{"", "", "1line", "300kshort", "200kline", "64k+1"}[u("so", 6)])}
				s.Faults = []string{"pipe.chunk,pipe.smallbuf", "pipe.chunk", "pipe.smallbuf", ""}[u("faults", 4)]
				// (the host-logger dimension stays with the fixed cells: in drawn
				// sequences of up to twelve lines a record that MAY exist - a line whose
				// level the statement leaves open - cannot be told from the record of a
				// later line with the same text, and the reference raised false alarms)
				if u("noise", 3) == 0 {
					swarm(s, "client.go:Client.logStderr,log_entry.go")
					if s.DelayClass == "big" {
						s.DelayClass = "mid"
					}
				}
				return s
			})...)
			return out
		},
		Run: runC10,
	})
}

type c10Rec struct {
	Level string
	Msg   string
	KV    map[string]string
}

func runC10(r *h.Run) {
	w := r.W
	bufsize := r.Spec.PI("buf", 0)
	effBuf := bufsize
	if effBuf == 0 {
		effBuf = 64 * 1024
	}
	ctx := fmt.Sprintf("bufsize=%d", bufsize)
	var lines []c10Line
	if fx := r.Spec.P("fixed", ""); fx != "" {
		var cl, sub int
		fmt.Sscanf(fx, "%d.%d", &cl, &sub)
		switch r.Spec.P("ctx", "alone") {
		case "after-panic":
			lines = append(lines, c10Gen(6, 0, effBuf, 0), c10Gen(6, 1, effBuf, 1))
		}
		l := c10Gen(cl, sub, effBuf, 2)
		lines = append(lines, l)
		if r.Spec.P("ctx", "") != "last-no-newline" {
			lines = append(lines, c10Gen(1, 2, effBuf, 3)) // a later line must still be processed
		}
	} else if bulk := r.Spec.PI("bulk", 0); bulk > 0 {
		// a long trace: the plugin explains at length why it gives up
		lines = append(lines, c10Gen(6, 0, effBuf, 0))
		for i := 1; i < bulk; i++ {
			lines = append(lines, c10Gen(0, 0, effBuf, i))
		}
	} else if r.Spec.P("random", "") == "1" {
		n := 1 + w.Range("lines/n", 12)
		for i := 0; i < n; i++ {
			lines = append(lines, c10Gen(w.Range("lines/class", c10Classes), w.Range("lines/sub", 7), effBuf, i))
		}
	}
	noFinalNL := r.Spec.P("ctx", "") == "last-no-newline" || (r.Spec.P("random", "") == "1" && w.Range("lines/nofinalnl", 4) == 1)
	for i := range lines {
		if lines[i].Term == "" {
			lines[i].Term = "\n"
		}
	}
	if n := len(lines); n > 0 && noFinalNL {
		lines[n-1].Term = ""
		if lines[n-1].Text == "" {
			lines = lines[:n-1] // an empty last line without terminator is no bytes at all
		}
	}
	var stderrBytes []byte
	var shape []string
	for i := range lines {
		stderrBytes = append(stderrBytes, lines[i].Text+lines[i].Term...)
		shape = append(shape, fmt.Sprintf("%s:%d", lines[i].Class, len(lines[i].Text)))
	}
	r.Info["lines"] = strings.Join(shape, " ")
	// stdout after the handshake
	var stdoutBytes []byte
	switch r.Spec.P("stdout", "") {
	case "1line":
		stdoutBytes = []byte("one line on stdout\n")
	case "64k-1":
		stdoutBytes = []byte(strings.Repeat("x", 64*1024-2) + "\n")
	case "64k+1":
		stdoutBytes = []byte(strings.Repeat("x", 64*1024+1) + "\n" + "after\n")
	case "200kline":
		stdoutBytes = []byte("before\n" + strings.Repeat("y", 200*1024) + "\nafter the long line\n" + strings.Repeat("short line\n", 8000))
	case "300kshort":
		stdoutBytes = []byte(strings.Repeat("a short line of plugin output\n", 10000))
	case "nonl":
		stdoutBytes = []byte(strings.Repeat("z", 100000))
	}
	chunk := []int{0, 1, 7, 100, 4096}[w.Range("chunk", 5)]
	sc := &h.Script{Listen: "unix", Steps: []h.ScriptStep{h.Out("1|1|unix|{ADDR}|netrpc|\n")}}
	// hs: the start FAILS after the plugin wrote its stderr (what it wrote is
	// usually the explanation): a refused handshake line, or exit without one
	hsMode := r.Spec.P("hs", "")
	if hsMode != "" {
		sc.Steps = nil
		stdoutBytes = nil
		ctx += " start=" + hsMode
	}
	if len(stderrBytes) > 0 {
		st := h.ScriptStep{Stream: "err", Data: base64.StdEncoding.EncodeToString(stderrBytes), Chunk: chunk}
		sc.Steps = append(sc.Steps, st)
	}
	switch hsMode {
	case "bad-after":
		sc.Steps = append(sc.Steps, h.Out("9|9|unix|{ADDR}|netrpc|\n"))
	case "none-exit":
		sc.End = "exit:2"
	}
	if len(stdoutBytes) > 0 {
		sc.Steps = append(sc.Steps, h.ScriptStep{Stream: "out", Data: base64.StdEncoding.EncodeToString(stdoutBytes), Chunk: []int{0, 1000, 65536}[w.Range("ochunk", 3)]})
	}
	st := r.InstallScript("/bin/scripted", sc)

	// the host's logger may be more restrictive than the default (Trace): a
	// line whose level it lets through must still get its record
	logLevel := r.Spec.P("loglevel", "trace")
	rank := map[string]int{"trace": 0, "debug": 1, "info": 2, "warn": 3, "error": 4}
	if logLevel != "trace" {
		ctx += " host-logger=" + logLevel
	}
	var logBuf, errBuf h.LockedBuf
	cmd := simexec.Command("/bin/scripted")
	cmd.SimName = "plugin"
	cl := plugin.NewClient(&plugin.ClientConfig{
		HandshakeConfig: plugins.Handshake, Plugins: h.PluginSet("netrpc", plugins.NewShared("host")), Cmd: cmd,
		Logger:              hclog.New(&hclog.LoggerOptions{Name: "host", Level: hclog.LevelFromString(logLevel), Output: &logBuf, JSONFormat: true}),
		Stderr:              &errBuf,
		PluginLogBufferSize: bufsize, StartTimeout: 20 * time.Second,
	})
	o := r.DoNoHang("Start", 60*time.Second, ctx, func() (any, error) { return cl.Start() })
	if o.Hung {
		return
	}
	if o.Err != nil && hsMode == "" {
		r.Violate("setup", "start failed", o.Err.Error())
		return
	}
	if o.Err == nil && hsMode != "" {
		r.Violate("setup", "start succeeded although the plugin refuses the handshake", "")
		return
	}
	// the writer must not be blocked for ever
	deadline := 60 * time.Second
	for waited := time.Duration(0); !st.Finished && waited < deadline+w.InjectedTotal(); waited += 500 * time.Millisecond {
		time.Sleep(500 * time.Millisecond)
	}
	if !st.Finished {
		what := "stderr"
		if st.StepsDone >= 1+b2i(len(stderrBytes) > 0) {
			what = "stdout"
		}
		r.Violate("plugin-blocked", fmt.Sprintf("stream=%s stdoutcase=%s", what, r.Spec.P("stdout", "")), fmt.Sprintf("the plugin is still blocked writing to its %s %v after it started (steps done %d); the host stopped consuming\n%s", what, deadline, st.StepsDone, r.HostStacks("goplugin")))
	}
	time.Sleep(2 * time.Second)
	proc := w.ProcByName("plugin")
	if proc != nil {
		proc.Crash(0, "end of script") // EOF on both pipes flushes a last unterminated line
	}
	time.Sleep(2 * time.Second)

	// 1. verbatim copy to ClientConfig.Stderr
	if st.Finished || len(stdoutBytes) == 0 {
		var want []byte
		for _, l := range lines {
			want = append(want, l.Text+"\n"...)
		}
		got := errBuf.Bytes()
		if n := len(lines); n > 0 && lines[n-1].Term == "" && len(got)+1 == len(want) && bytes.Equal(got, want[:len(got)]) {
			// the script's last line had no terminator: a copy with or without a
			// final LF is equally faithful
			got = want
		}
		if !bytes.Equal(got, want) {
			cls := map[string]bool{}
			for _, l := range lines {
				cls[l.Class] = true
			}
			r.Violate("stderr-not-faithful", ctx+" classes="+strings.Join(k.SortedKeys(cls), ","), fmt.Sprintf("ClientConfig.Stderr got %d bytes, want %d; first difference at %d\n got: %q\nwant: %q", len(got), len(want), firstDiff(got, want), firstN(string(got), 300), firstN(string(want), 300)))
		}
	}
	// 2. log records
	var recs []c10Rec
	for _, ln := range strings.Split(logBuf.String(), "\n") {
		if ln == "" {
			continue
		}
		var m map[string]any
		if json.Unmarshal([]byte(ln), &m) != nil {
			continue
		}
		if mod, _ := m["@module"].(string); !strings.HasSuffix(mod, ".scripted") {
			continue
		}
		rec := c10Rec{KV: map[string]string{}}
		rec.Level, _ = m["@level"].(string)
		rec.Msg, _ = m["@message"].(string)
		for kk, v := range m {
			if !strings.HasPrefix(kk, "@") {
				rec.KV[kk] = fmt.Sprint(v)
			}
		}
		recs = append(recs, rec)
	}
	// reference reading: walk lines and records in step; non-strict lines may
	// produce any number of records, so resynchronise on the next strict line
	ri := 0
	const (
		no = iota
		yes
		unknown
	)
	inPanic := no
	for li, l := range lines {
		if len(l.Text) >= effBuf {
			// longer than the buffer: only the verbatim copy is checked, no state
			// change. Skip the records of its pieces (all made of one letter), and
			// the empty tail piece a line of exactly k x bufsize bytes produces, so
			// that they are not mistaken for the records of later lines.
			// (whatever its class: a JSON line longer than the buffer is logged in
			// pieces like any other)
			// (the pieces are logged at Debug, panic trace or not: a host logger
			// above Debug shows none of them)
			for off := 0; off <= len(l.Text) && rank[logLevel] <= rank["debug"]; off += effBuf {
				end := off + effBuf
				if end > len(l.Text) {
					end = len(l.Text)
				}
				if ri < len(recs) && recs[ri].Msg == l.Text[off:end] {
					ri++
				}
			}
			continue
		}
		wantLevel := l.Level
		switch l.Class {
		case "prefix", "hclog-json", "json-no-level":
			inPanic = no
		case "json-wrong-types", "binary":
			// the statement only asks for "no panic, later lines still processed";
			// whether such a line ends a panic trace is not specified
			inPanic = unknown
			continue
		case "json-non-object":
			if l.Text == "null" {
				inPanic = unknown // decodes into an (empty) object
				continue
			}
			fallthrough
		default: // plain text
			if strings.HasPrefix(l.Text, "panic:") {
				inPanic = yes
				wantLevel = "error"
			} else if inPanic == yes {
				wantLevel = "error"
			} else if inPanic == unknown {
				wantLevel = ""
			} else if wantLevel == "" {
				wantLevel = "debug"
			}
		}
		msg := l.Msg
		if !l.Strict {
			msg = l.Text // plain text line: the message is the line
		}
		if logLevel != "trace" {
			if wantLevel == "" {
				// level not specified: the logger may or may not have let it through;
				// its record, if any, is skipped by the search for the next line that
				// must have one
				continue
			}
			if rank[wantLevel] < rank[logLevel] {
				continue // below the host logger's level: no record expected
			}
		}
		found := false
		if logLevel != "trace" {
			// a record of an earlier line that need not have one may carry the same
			// text at another level: prefer the record with the expected level
			for j := ri; j < len(recs); j++ {
				if recs[j].Msg == msg && recs[j].Level == wantLevel {
					ri, found = j, true
					break
				}
			}
		}
		for ; !found && ri < len(recs); ri++ {
			if recs[ri].Msg == msg {
				found = true
				break
			}
		}
		lctx := fmt.Sprintf("%s class=%s", ctx, l.Class)
		if !found {
			r.Violate("record-missing", lctx, fmt.Sprintf("no log record for stderr line %d %q (records: %d)\nlog: %s", li, firstN(l.Text, 120), len(recs), firstN(logBuf.String(), 1500)))
			break
		}
		rec := recs[ri]
		ri++
		if wantLevel != "" && rec.Level != wantLevel {
			r.Violate("wrong-level", lctx, fmt.Sprintf("line %q logged at %q, reference says %q (inside panic trace: %v)", firstN(l.Text, 120), rec.Level, wantLevel, inPanic == yes))
		}
		for kk, v := range l.KV {
			if rec.KV[kk] != v {
				r.Violate("wrong-kv", lctx, fmt.Sprintf("line %q: key %q logged as %q, want %q", firstN(l.Text, 120), kk, rec.KV[kk], v))
			}
		}
	}
	r.DoNoHang("Kill", 120*time.Second, ctx, func() (any, error) { cl.Kill(); return nil, nil })
}

func b2i(b bool) int {
	if b {
		return 1
	}
	return 0
}

func firstDiff(a, b []byte) int {
	n := len(a)
	if len(b) < n {
		n = len(b)
	}
	for i := 0; i < n; i++ {
		if a[i] != b[i] {
			return i
		}
	}
	return n
}
