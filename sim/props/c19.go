package props

import (
	"encoding/json"
	"fmt"
	"net"
	"sort"
	"strings"
	"sync"
	"time"

	plugin "simworld/goplugin"
	"simworld/goplugin/runner"
	"simworld/h"
	"simworld/k"
	"simworld/shim/simexec"

	"github.com/anishathalye/porcupine"
	hclog "github.com/hashicorp/go-hclog"
)

// C19: a Client launches its plugin at most once and its accessors are idempotent.

var c19Ops = []string{"Start", "Client", "Protocol", "ReattachConfig", "ID", "Exited", "Kill"}

func init() {
	Register(&Prop{ID: "C19",
		Meta: Meta{Stages: 2, Level: "exploration", Race: true,
			Rule:       "one Client; a history of 2-8 operations over {Start, Client, Protocol, ReattachConfig, ID, Exited, Kill} issued sequentially or from up to 4 concurrent goroutines with drawn offsets; plus ONE CONTEXT SWITCH PLACED AT EVERY STATEMENT: stage 0 profiles the go-plugin statements goroutine 0 passes inside each operation of Start, Client, Kill (well-behaved and failing plugins, command and custom runner), stage 1 runs one case per (operation A, statement, operation B) in which goroutine 1 issues B exactly while goroutine 0 is at that statement of A; plugin kinds {starts correctly net/rpc, starts correctly gRPC, fails the handshake, times out, exits early} x launch {command, custom runner}; all sequences of length <=3 over {Start, Client, Kill} enumerated per plugin kind and launch, longer and concurrent histories seeded with schedule noise in Client.Start/Client/Kill; thorough tier repeats a sample under the race detector. Oracle: the kernel saw at most one spawn for this client (and no spawn after Kill returned), every successful Start returned the identical address and every successful Client the identical protocol client, no call hangs or panics, and the invoke/return history (stamped with the simulator's global event sequence numbers) is linearizable (porcupine) against a sequential reference model of the Client: {fresh, started(addr), failed, killed}",
			Exhaustive: "all operation sequences of length <=3 over {Start, Client, Kill} x plugin kind x launch method"},
		Plan: func(tier string, seed uint64, stage int, prev []*h.Result) []*k.Spec {
			kinds := []string{"ok-netrpc", "ok-grpc", "bad-handshake", "timeout", "exits-early", "runner-start-fails", "ok-grpc-auto", "ok-netrpc-auto"}
			launches := []string{"cmd", "runner"}
			if stage == 1 && tier != "selftest" {
				// one context switch, placed at every statement: while goroutine 0 is at
				// statement S of operation A (sequence Start, Client, Kill), goroutine 1
				// issues operation B
				bs := []string{"Client", "Kill", "Start"}
				maxOcc := 1
				if tier == "thorough" {
					bs = []string{"Client", "Kill", "Start", "Protocol", "ReattachConfig", "Exited"}
					maxOcc = 2
				}
				var out []*k.Spec
				for _, pr := range prev {
					if pr.Spec == nil || pr.Spec.P("mode", "") != "preempt-profile" {
						continue
					}
					var sites []c19Site
					json.Unmarshal([]byte(pr.Info["opsites"]), &sites)
					for _, st := range sites {
						for occ := st.First; occ <= st.Last && occ < st.First+maxOcc; occ++ {
							for _, b := range bs {
								s := sp("C19", fmt.Sprintf("preempt/%s/%s/%s@%s#%d/%s", pr.Spec.P("kind", ""), pr.Spec.P("launch", ""), st.Op, st.Site, occ, b), seed,
									cp(pr.Spec.Params, "mode", "preempt", "b", b))
								s.Triggers = []*k.Trigger{{On: "site", Proc: "host", Key: st.Site, Occ: occ, Act: "callsleep:b:1000000"}}
								out = append(out, s)
							}
						}
					}
				}
				return out
			}
			if stage > 0 {
				return nil
			}
			var out []*k.Spec
			if tier != "selftest" {
				pk := []string{"ok-grpc", "bad-handshake", "ok-grpc-auto"}
				if tier == "thorough" {
					pk = []string{"ok-netrpc", "ok-grpc", "bad-handshake", "exits-early", "runner-start-fails", "ok-grpc-auto", "ok-netrpc-auto"}
				}
				for _, kd := range pk {
					for _, l := range launches {
						s := sp("C19", fmt.Sprintf("preempt-profile/%s/%s", kd, l), seed, P("kind", kd, "launch", l, "ops", "Start,Client,Kill", "mode", "preempt-profile"))
						s.Profile = true
						out = append(out, s)
					}
				}
			}
			if tier != "selftest" {
				base := []string{"Start", "Client", "Kill"}
				var seqs [][]string
				var rec func(cur []string)
				rec = func(cur []string) {
					if len(cur) > 0 {
						seqs = append(seqs, append([]string(nil), cur...))
					}
					if len(cur) == 3 {
						return
					}
					for _, o := range base {
						rec(append(cur, o))
					}
				}
				rec(nil)
				for _, kd := range kinds {
					for _, l := range launches {
						for _, sq := range seqs {
							out = append(out, sp("C19", fmt.Sprintf("seq/%s/%s/%s", kd, l, strings.Join(sq, ",")), seed, P("kind", kd, "launch", l, "ops", strings.Join(sq, ","), "mode", "seq")))
						}
					}
				}
			}
			n := 600
			if tier == "thorough" {
				n = 100000
			}
			if tier == "selftest" {
				n = 6
			}
			out = append(out, seeded("C19", seed, n, func(i int, sd uint64) *k.Spec {
				u := func(tag string, n int) int { return int(k.H(sd, tag, 0) % uint64(n)) }
				s := &k.Spec{Seed: sd, Params: P("kind", kinds[u("kind", len(kinds))], "launch", launches[u("launch", 2)], "mode", []string{"seq", "conc", "conc"}[u("mode", 3)], "ops", "random")}
				swarm(s, "client.go:Client.Start,client.go:Client.Client,client.go:Client.Kill,client.go:Client.reattach")
				if s.DelayClass == "big" {
					s.DelayClass = "mid"
				}
				if tier == "thorough" && i%10 == 0 {
					s.Params["race"] = "1"
				}
				return s
			})...)
			return out
		},
		Run: runC19,
	})
}

// c19Site: a go-plugin statement a host goroutine passes inside one operation
// of the profiled sequence.
type c19Site struct {
	Op    string `json:"o"`
	Site  string `json:"s"`
	First int    `json:"f"`
	Last  int    `json:"l"`
}

// sequential reference model of one Client for porcupine
type c19In struct {
	Op string
}
type c19Out struct {
	OK   bool   // Start/Client succeeded
	Addr string // Start: address identity; Client: client identity
	Val  string // Protocol / ID / Exited / ReattachConfig rendering
}
type c19State struct {
	Phase  string // fresh | started | failed | killed
	Addr   string
	Client string
	EverOK bool
}

func c19Model(okKind bool) porcupine.Model {
	return porcupine.Model{
		Init: func() interface{} { return c19State{Phase: "fresh"} },
		Step: func(st, in, out interface{}) (bool, interface{}) {
			s := st.(c19State)
			i := in.(c19In)
			o := out.(c19Out)
			switch i.Op {
			case "Start", "Client", "Protocol":
				succeeded := o.OK
				if i.Op == "Protocol" {
					succeeded = o.Val != ""
				}
				switch s.Phase {
				case "fresh":
					if succeeded {
						if !okKind {
							return false, s
						}
						s.Phase, s.EverOK = "started", true
						if i.Op == "Start" {
							s.Addr = o.Addr
						}
						if i.Op == "Client" {
							s.Client = o.Addr
						}
						return true, s
					}
					if okKind {
						return false, s // a healthy plugin must start
					}
					s.Phase = "failed"
					return true, s
				case "started", "killed":
					// once started, Start keeps returning the same address, even after Kill
					if i.Op == "Start" {
						if !succeeded {
							return false, s
						}
						if s.Addr == "" {
							s.Addr = o.Addr
						}
						return o.Addr == s.Addr, s
					}
					if i.Op == "Client" {
						if !succeeded {
							return s.Phase == "killed", s // connecting to a killed plugin may fail
						}
						if s.Client == "" || s.Phase == "killed" {
							s.Client = o.Addr
							return true, s
						}
						return o.Addr == s.Client, s
					}
					return true, s
				case "failed":
					// a failed start stays failed: no second launch can make it succeed
					return !succeeded, s
				}
			case "Kill":
				if s.Phase == "started" {
					s.Phase = "killed"
				}
				return true, s
			case "Exited":
				if o.Val == "true" && s.Phase == "fresh" {
					return false, s
				}
				return true, s
			case "ID", "ReattachConfig":
				if s.Phase == "fresh" && o.Val != "" && o.Val != "nil" {
					return false, s
				}
				return true, s
			}
			return true, s
		},
		Equal: func(a, b interface{}) bool { return a.(c19State) == b.(c19State) },
		DescribeOperation: func(in, out interface{}) string {
			return fmt.Sprintf("%s -> %+v", in.(c19In).Op, out.(c19Out))
		},
	}
}

func runC19(r *h.Run) {
	w := r.W
	kind, launch, mode := r.Spec.P("kind", "ok-netrpc"), r.Spec.P("launch", "cmd"), r.Spec.P("mode", "seq")
	ctx := fmt.Sprintf("plugin=%s launch=%s mode=%s", kind, launch, mode)
	c := h.Conf{Launch: launch, Name: "plugin", Timeout: 8 * time.Second}
	okKind := strings.HasPrefix(kind, "ok-")
	switch kind {
	case "ok-netrpc":
		c.Proto = "netrpc"
		r.InstallPlugin(&c)
	case "ok-grpc":
		c.Proto = "grpc"
		r.InstallPlugin(&c)
	case "ok-grpc-auto", "ok-netrpc-auto":
		// AutoMTLS: Start generates a certificate on its way
		c.Proto, c.TLS = strings.TrimSuffix(strings.TrimPrefix(kind, "ok-"), "-auto"), "auto"
		r.InstallPlugin(&c)
	case "bad-handshake":
		c.Proto, c.Path = "netrpc", "/bin/bad"
		r.InstallScript(c.Path, &h.Script{Steps: []h.ScriptStep{h.Out("this is not a handshake\n")}})
	case "timeout":
		c.Proto, c.Path = "netrpc", "/bin/silent"
		r.InstallScript(c.Path, &h.Script{})
	case "exits-early":
		c.Proto, c.Path = "netrpc", "/bin/exits"
		r.InstallScript(c.Path, &h.Script{End: "exit:3"})
	}
	if kind == "runner-start-fails" {
		// the runner's Start launches the process and then reports a failure
		c.Proto, c.Launch = "netrpc", "runner"
		r.InstallPlugin(&c)
		c.TweakClient = func(cc *plugin.ClientConfig) {
			rf := cc.RunnerFunc
			cc.RunnerFunc = func(l hclog.Logger, cmd *simexec.Cmd, tmpDir string) (runner.Runner, error) {
				rr, err := rf(l, cmd, tmpDir)
				if sr, ok := rr.(*h.SimRunner); ok {
					sr.StartFailsAfterLaunch = true
				}
				return rr, err
			}
		}
	}
	cl := r.NewClient(c)

	var ops []string
	if o := r.Spec.P("ops", "random"); o != "random" {
		ops = strings.Split(o, ",")
	} else {
		n := 2 + w.Range("ops/n", 7)
		for i := 0; i < n; i++ {
			ops = append(ops, c19Ops[w.Range("ops/kind", len(c19Ops))])
		}
	}
	var mu sync.Mutex
	var hist []porcupine.Operation
	killReturnedSeq := uint64(0)
	ptr := func(v any) string { return fmt.Sprintf("%p", v) }
	do := func(client int, op string) {
		call := w.Seq()
		var out c19Out
		o := r.Do(op, 150*time.Second, func() (any, error) {
			switch op {
			case "Start":
				a, err := cl.Start()
				if err == nil {
					out.OK = true
					if isNilAddr(a) {
						out.Addr = "nil"
					} else {
						out.Addr = addrIdentity(a)
					}
				}
			case "Client":
				cp, err := cl.Client()
				if err == nil {
					out.OK = true
					out.Addr = ptr(cp)
				}
			case "Protocol":
				out.Val = string(cl.Protocol())
			case "ReattachConfig":
				if rc := cl.ReattachConfig(); rc == nil {
					out.Val = "nil"
				} else {
					out.Val = fmt.Sprintf("%s/%v", rc.Protocol, rc.Addr)
				}
			case "ID":
				out.Val = cl.ID()
			case "Exited":
				out.Val = fmt.Sprint(cl.Exited())
			case "Kill":
				cl.Kill()
			}
			return nil, nil
		})
		ret := w.Seq()
		if o.Hung {
			r.Violate("hang", fmt.Sprintf("op=%s %s", op, ctx), fmt.Sprintf("%s still outstanding after %v\n%s", op, o.Took, r.HostStacks("goplugin")))
			return
		}
		mu.Lock()
		hist = append(hist, porcupine.Operation{ClientId: client, Input: c19In{op}, Call: int64(call), Output: out, Return: int64(ret)})
		if op == "Kill" && ret > killReturnedSeq {
			killReturnedSeq = ret
		}
		mu.Unlock()
	}
	if mode == "preempt-profile" || mode == "preempt" {
		var bwg sync.WaitGroup
		var bonce sync.Once
		w.Callbacks = map[string]func(){"b": func() {
			bonce.Do(func() {
				bwg.Add(1)
				go k.Trap(func() { defer bwg.Done(); do(1, r.Spec.P("b", "Client")) })
			})
		}}
		var sites []c19Site
		for _, op := range ops {
			mark := w.SitePass()
			do(0, op)
			if r.Spec.Profile {
				end := w.SitePass()
				var add []c19Site
				for key, n := range end {
					proc, site, ok := strings.Cut(key, " ")
					if ok && proc == "host" && n > mark[key] {
						add = append(add, c19Site{Op: op, Site: site, First: mark[key] + 1, Last: n})
					}
				}
				sort.Slice(add, func(i, j int) bool { return add[i].Site < add[j].Site })
				sites = append(sites, add...)
			}
		}
		bwg.Wait()
		if r.Spec.Profile {
			js, _ := json.Marshal(sites)
			r.Info["opsites"] = string(js)
		}
		if mode == "preempt" && w.FaultCount("trigger.callsleep") == 0 {
			w.Probe("preempt.site-not-reached")
		}
	} else if mode == "seq" {
		for _, op := range ops {
			do(0, op)
		}
	} else {
		var wg sync.WaitGroup
		ng := 2 + w.Range("conc/goroutines", 3)
		for g := 0; g < ng; g++ {
			g := g
			wg.Add(1)
			go k.Trap(func() {
				defer wg.Done()
				for i := g; i < len(ops); i += ng {
					time.Sleep(time.Duration(w.Range("conc/offset", 4)) * 500 * time.Microsecond)
					do(g, ops[i])
				}
			})
		}
		wg.Wait()
	}
	// launches seen by the kernel
	spawns := 0
	var spawnAfterKill bool
	var firstKillRet uint64
	for _, op := range hist {
		if op.Input.(c19In).Op == "Kill" && (firstKillRet == 0 || uint64(op.Return) < firstKillRet) {
			firstKillRet = uint64(op.Return)
		}
	}
	for _, ev := range w.Events {
		if ev.Kind == "spawn" && ev.Proc == "host" && strings.HasPrefix(ev.Key, "plugin") {
			spawns++
			// "again": only a launch that follows an earlier launch and a Kill
			if spawns > 1 && firstKillRet != 0 && ev.Seq > firstKillRet {
				spawnAfterKill = true
			}
		}
	}
	if spawns > 1 {
		r.Violate("launched-twice", ctx, fmt.Sprintf("the kernel saw %d launches for one Client; history: %s", spawns, renderHist(hist)))
	}
	if spawnAfterKill {
		r.Violate("launch-after-kill", ctx, fmt.Sprintf("a launch happened after Kill had returned; history: %s", renderHist(hist)))
	}
	if w.ProbeCount("runnerfunc.called") > 1 {
		r.Violate("launched-twice", ctx+" runnerfunc", fmt.Sprintf("RunnerFunc was invoked %d times; history: %s", w.ProbeCount("runnerfunc.called"), renderHist(hist)))
	}
	// identical addresses / clients (before any Kill)
	firstKillCall := uint64(0)
	for _, op := range hist {
		if op.Input.(c19In).Op == "Kill" && (firstKillCall == 0 || uint64(op.Call) < firstKillCall) {
			firstKillCall = uint64(op.Call)
		}
	}
	addrs, clients := map[string]bool{}, map[string]bool{}
	for _, op := range hist {
		out := op.Output.(c19Out)
		if !out.OK {
			continue
		}
		switch op.Input.(c19In).Op {
		case "Start":
			addrs[out.Addr] = true
		case "Client":
			// (clients handed out before any Kill was even issued)
			if firstKillCall == 0 || uint64(op.Return) < firstKillCall {
				clients[out.Addr] = true
			}
		}
	}
	if len(addrs) > 1 || addrs["nil"] {
		r.Violate("start-not-idempotent", ctx, fmt.Sprintf("successful Start calls returned %v; history: %s", keysOf(addrs), renderHist(hist)))
	}
	if len(clients) > 1 {
		r.Violate("client-not-idempotent", ctx, fmt.Sprintf("successful Client calls returned %d different protocol clients; history: %s", len(clients), renderHist(hist)))
	}
	// linearizability against the reference model
	if len(hist) > 0 && len(hist) <= 12 {
		res := porcupine.CheckOperationsTimeout(c19Model(okKind), hist, 20*time.Second)
		switch res {
		case porcupine.Illegal:
			r.Violate("not-linearizable", ctx, "the history has no linearization against the sequential Client model: "+renderHist(hist))
		case porcupine.Unknown:
			w.Probe("porcupine.timeout")
		default:
			w.Probe("porcupine.ok")
		}
	}
	r.Do("Kill(final)", 150*time.Second, func() (any, error) { cl.Kill(); return nil, nil })
}

func addrIdentity(a net.Addr) string { return fmt.Sprintf("%p/%s", a, a.String()) }

func keysOf(m map[string]bool) []string {
	var ks []string
	for k := range m {
		ks = append(ks, k)
	}
	sort.Strings(ks)
	return ks
}

func renderHist(h []porcupine.Operation) string {
	sort.Slice(h, func(i, j int) bool { return h[i].Call < h[j].Call })
	var parts []string
	for _, op := range h {
		o := op.Output.(c19Out)
		res := ""
		switch {
		case o.OK:
			res = "ok"
		case o.Val != "":
			res = o.Val
		default:
			res = "err/-"
		}
		parts = append(parts, fmt.Sprintf("[g%d %d-%d %s=%s]", op.ClientId, op.Call, op.Return, op.Input.(c19In).Op, res))
	}
	return strings.Join(parts, " ")
}

var _ = plugin.ProtocolGRPC
