package props

import (
	"encoding/json"
	"fmt"
	"sort"
	"strings"
	"sync"
	"time"

	plugin "simworld/goplugin"
	"simworld/h"
	"simworld/k"
	"simworld/plugins"
	"simworld/shim/simos"
)

// C04: Kill always ends the plugin process in bounded time, gracefully if possible.

var c04Behaviours = []string{"prompt", "cleanup:0", "cleanup:100ms", "cleanup:500ms", "cleanup:1500ms", "ignore", "stopped", "crashed", "busy", "never-connected", "failed-handshake", "failed-handshake-more-output"}
var c04Patterns = []string{"single", "twice", "concurrent3", "race-client", "cleanup-clients"}

func init() {
	Register(&Prop{ID: "C04",
		Meta: Meta{Stages: 2, Level: "fault_enumeration",
			Rule:       "matrix: plugin shutdown behaviour {exits at once; cleanup of 0/100/500/1500ms then exit writing a marker file; ignores the request; frozen by SIGSTOP; already crashed; busy in a call; never connected; failed handshake} x protocol {net/rpc, gRPC, gRPC+mux} x launch {command, custom runner, reattach} x call pattern {Kill; Kill twice; 3 concurrent Kill; Kill racing Client(); CleanupClients over 3 managed clients in mixed states; CleanupClients over 4 running managed clients while two goroutines keep creating further managed clients; for reattach cells also: the launching host and the reattached host, both connected, Kill 0/50/300 ms apart; reattached plugin that exits promptly, Kill after 6.5 s / 60 s attached, Kill then bounded by 6 s}, plus a SECOND Kill / CleanupClients issued exactly while the first Kill is at statement S, for every go-plugin statement the first Kill passes (profiled in stage 0; plugin exits at once / after 100 or 500 ms of cleanup / never), plus Kill / CleanupClients issued at 7 offsets while another goroutine's Start still waits for the handshake of a plugin that stays silent, writes a bad line late, exits late or serves late, each cell run fault-free and (seeded part) with schedule noise in Client.Kill/Close paths and socket latency; oracle: Kill returns within 60s simulated (+ injected delay), afterwards the process has exited and was reaped and Exited() is true, a plugin that exits <=500ms after the request received no SIGKILL and its cleanup marker exists, one that never exits received SIGKILL, no panic",
			Exhaustive: "the behaviour x protocol x launch x call-pattern matrix (valid cells)"},
		Plan: func(tier string, seed uint64, stage int, prev []*h.Result) []*k.Spec {
			if stage == 1 && tier != "selftest" {
				// a second Kill (or CleanupClients) issued exactly while the first
				// Kill is at statement S, for every statement the first one passes
				maxOcc := 1
				if tier == "thorough" {
					maxOcc = 3
				}
				var out []*k.Spec
				for _, pr := range prev {
					if pr.Spec == nil || pr.Spec.P("pat", "") != "preempt-kill" || !pr.Spec.Profile {
						continue
					}
					var sites []opSite
					json.Unmarshal([]byte(pr.Info["opsites"]), &sites)
					for _, st := range sites {
						for occ := st.First; occ <= st.Last && occ < st.First+maxOcc; occ++ {
							for _, via := range []string{"kill", "cleanup"} {
								s := sp("C04", fmt.Sprintf("preempt-kill/%s/%s/%s#%d/%s", confLabel(pr.Spec.Params), pr.Spec.P("beh", ""), st.Site, occ, via), seed, cp(pr.Spec.Params, "via", via))
								s.Triggers = []*k.Trigger{{On: "site", Proc: "host", Key: st.Site, Occ: occ, Act: "callsleep:kill2:1000000"}}
								out = append(out, s)
							}
						}
					}
				}
				return out
			}
			if stage > 0 {
				return nil
			}
			var cells []map[string]string
			for _, conf := range c03Confs[:3] {
				for _, launch := range []string{"cmd", "runner", "reattach"} {
					if launch == "reattach" && conf["mux"] == "1" {
						continue // not supported by go-plugin
					}
					for _, beh := range c04Behaviours {
						if strings.HasPrefix(beh, "failed-handshake") && launch == "reattach" {
							continue
						}
						for _, pat := range c04Patterns {
							if pat == "cleanup-clients" && strings.HasPrefix(beh, "failed-handshake") {
								continue
							}
							if pat == "race-client" && strings.HasPrefix(beh, "failed-handshake") {
								continue
							}
							cells = append(cells, cp(conf, "launch", launch, "beh", beh, "pat", pat))
						}
						if launch == "reattach" && (beh == "prompt" || beh == "cleanup:100ms") {
							// the plugin has been attached for a while before Kill (the
							// reattached runner notices the exit by polling the pid)
							for _, dwell := range []string{"6500ms", "60s"} {
								cells = append(cells, cp(conf, "launch", launch, "beh", beh, "pat", "single", "dwell", dwell))
							}
						}
						if launch == "reattach" && beh != "never-connected" {
							// the launching host and the reattached one both shut the plugin down
							for _, off := range []string{"0", "50ms", "300ms"} {
								cells = append(cells, cp(conf, "launch", launch, "beh", beh, "pat", "two-hosts", "off", off))
							}
						}
					}
				}
			}
			if tier == "selftest" {
				return seeded("C04", seed, 6, func(i int, sd uint64) *k.Spec {
					s := &k.Spec{Seed: sd, Params: cp(cells[int(k.H(sd, "cell", 0)%uint64(len(cells)))])}
					swarm(s, "")
					return s
				})
			}
			var out []*k.Spec
			for _, conf := range c03Confs[:3] {
				for _, beh := range []string{"prompt", "cleanup:100ms", "cleanup:500ms", "ignore"} {
					if tier != "thorough" && beh == "cleanup:500ms" {
						continue
					}
					s := sp("C04", fmt.Sprintf("preempt-kill-profile/%s/%s", confLabel(conf), beh), seed, cp(conf, "launch", "cmd", "beh", beh, "pat", "preempt-kill"))
					s.Profile = true
					out = append(out, s)
				}
			}
			// CleanupClients while other goroutines keep creating managed clients
			for _, conf := range c03Confs[:2] {
				nv := 12
				if tier == "thorough" {
					nv = 400
				}
				for v := 0; v < nv; v++ {
					s := sp("C04", fmt.Sprintf("cleanup-racing-newclient/%s/%d", confLabel(conf), v), seed+uint64(v)*7919, cp(conf, "launch", "cmd", "beh", "prompt", "pat", "cleanup-racing-newclient"))
					s.HotPermille, s.DelayClass = 0, "tiny"
					s.Focus = "client.go:CleanupClients"
					s.Wake = []int{0, 500, 1000}[v%3]
					out = append(out, s)
				}
			}
			for _, c := range cells {
				out = append(out, sp("C04", fmt.Sprintf("cell/%s/%s/%s/%s%s%s", confLabel(c), c["launch"], c["beh"], c["pat"], c["off"], dwellLabel(c)), seed, c))
			}
			// Kill (or CleanupClients) issued while another goroutine's Start is
			// still waiting for the handshake of a plugin that will fail it
			for _, launch := range []string{"cmd", "runner"} {
				for _, sb := range c04StartBehaviours {
					for _, off := range []string{"0", "1ms", "100ms", "700ms", "2900ms", "3s", "3001ms"} {
						for _, via := range []string{"kill", "cleanup"} {
							out = append(out, sp("C04", fmt.Sprintf("kill-during-start/%s/%s/%s/%s", launch, sb, off, via), seed,
								P("proto", "grpc", "launch", launch, "duringstart", sb, "off", off, "via", via)))
						}
					}
				}
			}
			n := 600
			if tier == "thorough" {
				n = 100000
			}
			out = append(out, seeded("C04", seed, n, func(i int, sd uint64) *k.Spec {
				s := &k.Spec{Seed: sd, Params: cp(cells[int(k.H(sd, "cell", 0)%uint64(len(cells)))])}
				swarm(s, "client.go:Client.Kill,rpc_client.go:RPCClient.Close,grpc_client.go:GRPCClient.Close,grpc_controller.go,rpc_server.go:RPCServer.done")
				if s.DelayClass == "big" || s.DelayClass == "mid" {
					s.DelayClass = "tiny" // window-crossing delays would only blur the grace-period oracle
				}
				switch k.H(sd, "faults", 0) % 4 {
				case 0:
					s.Faults = "conn.latency,conn.chunk"
				case 1:
					// connections reset while the shutdown request is under way
					s.Faults = "conn.rst,conn.chunk"
				}
				return s
			})...)
			return out
		},
		Run: runC04,
	})
}

var c04StartBehaviours = []string{"silent", "late-bad-line", "late-exit", "late-good-line"}

// runC04DuringStart: Kill racing a Start that has not returned yet.
func runC04DuringStart(r *h.Run) {
	w := r.W
	c := r.ConfFromParams()
	sb, via := r.Spec.P("duringstart", "silent"), r.Spec.P("via", "kill")
	off := parseDur(r.Spec.P("off", "0"))
	c.Timeout = 3 * time.Second
	c.Managed = via == "cleanup"
	ctx := fmt.Sprintf("kill-during-start plugin=%s launch=%s via=%s", sb, c.Launch, via)
	switch sb {
	case "silent":
		c.Path = "/bin/silent"
		r.InstallScript(c.Path, &h.Script{})
	case "late-bad-line":
		c.Path = "/bin/latebad"
		r.InstallScript(c.Path, &h.Script{Steps: []h.ScriptStep{h.Out("not a handshake\n").After(700 * time.Millisecond)}})
	case "late-exit":
		c.Path = "/bin/lateexit"
		r.InstallScript(c.Path, &h.Script{Steps: []h.ScriptStep{h.Err("giving up\n").After(700 * time.Millisecond)}, End: "exit:3"})
	case "late-good-line":
		// a real plugin that takes 700 ms to get to Serve
		c.PluginMain = func(serve func()) { time.Sleep(700 * time.Millisecond); serve() }
		r.InstallPlugin(&c)
	}
	cl := r.NewClient(c)
	var wg sync.WaitGroup
	wg.Add(1)
	var so h.Outcome
	go k.Trap(func() {
		defer wg.Done()
		so = r.Do("Start", 60*time.Second, func() (any, error) { return cl.Start() })
	})
	time.Sleep(off)
	ko := r.Do("Kill[during-start]", 60*time.Second, func() (any, error) {
		if via == "cleanup" {
			plugin.CleanupClients()
		} else {
			cl.Kill()
		}
		return nil, nil
	})
	wg.Wait()
	if ko.Hung || so.Hung {
		r.Violate("hang", fmt.Sprintf("op=%s %s", map[bool]string{true: "Kill", false: "Start"}[ko.Hung], ctx),
			fmt.Sprintf("Kill hung=%v Start hung=%v\n%s", ko.Hung, so.Hung, r.HostStacks("goplugin")))
		return
	}
	// whatever the interleaving was, a further Kill ends it
	fo := r.Do("Kill(final)", 60*time.Second, func() (any, error) { cl.Kill(); return nil, nil })
	if fo.Hung {
		r.Violate("hang", "op=Kill "+ctx+" final", r.HostStacks("goplugin"))
		return
	}
	time.Sleep(3 * time.Second)
	if p := w.ProcByName("plugin"); p != nil {
		if p.Alive() {
			r.Violate("process-left-behind", ctx, "plugin process still alive after Kill returned")
		} else if p.State() != k.Reaped {
			r.Violate("not-reaped", ctx, "plugin exited but was never waited for (zombie) 3s after Kill")
		} else if !cl.Exited() {
			r.Violate("not-exited", ctx, "Kill returned and the process is gone but Exited() is false")
		}
	}
	w.Probe("kill-during-start.checked")
}

type c04Plugin struct {
	aliveAtReq bool
	conf       h.Conf
	beh        string
	cl         *plugin.Client
	name       string
	marker     string
	reqAt      time.Duration  // when the shutdown was requested (Kill issued)
	a          *plugin.Client // original client when reattached
}

func runC04(r *h.Run) {
	if r.Spec.P("duringstart", "") != "" {
		runC04DuringStart(r)
		return
	}
	w := r.W
	base := r.ConfFromParams()
	launch := r.Spec.P("launch", "cmd")
	beh := r.Spec.P("beh", "prompt")
	pat := r.Spec.P("pat", "single")
	ctx := fmt.Sprintf("conf=%s launch=%s plugin=%s pattern=%s", base.String(), launch, beh, pat)

	mk := func(idx int, beh string) *c04Plugin {
		c := base
		c.Name = fmt.Sprintf("plugin%d", idx)
		if idx == 0 {
			c.Name = "plugin"
		}
		c.Launch = launch
		if launch == "reattach" {
			c.Launch = "cmd"
		}
		c.Managed = (pat == "cleanup-clients" || pat == "cleanup-racing-newclient") && launch != "reattach"
		p := &c04Plugin{conf: c, beh: beh, name: c.Name, marker: "/tmp/marker-" + c.Name}
		cleanup := time.Duration(-1)
		if len(beh) > 8 && beh[:8] == "cleanup:" {
			cleanup = parseDur(beh[8:])
		}
		marker := p.marker
		c.PluginMain = func(serve func()) {
			serve()
			switch {
			case cleanup >= 0:
				time.Sleep(cleanup)
				simos.WriteFile(marker, []byte("clean"), 0o644)
				simos.Exit(0)
			case beh == "ignore":
				select {}
			}
		}
		if strings.HasPrefix(beh, "failed-handshake") {
			c.Path = "/bin/badhs-" + c.Name
			steps := []h.ScriptStep{h.Out("1|1|unix\n")}
			if beh == "failed-handshake-more-output" {
				// e.g. a binary that is not a plugin and prints a usage text
				steps = []h.ScriptStep{h.Out("usage: tool [flags]\n  -h  help\n  -v  version\n"), h.Err("tool: unknown invocation\n"), h.Out("more output later\n").After(500 * time.Millisecond)}
			}
			r.InstallScript(c.Path, &h.Script{Steps: steps})
		} else {
			r.InstallPlugin(&c)
		}
		p.conf = c
		p.cl = r.NewClient(c)
		return p
	}

	var ps []*c04Plugin
	if pat == "cleanup-clients" {
		ps = append(ps, mk(0, beh), mk(1, "prompt"), mk(2, "ignore"))
	} else if pat == "cleanup-racing-newclient" {
		ps = append(ps, mk(0, "prompt"), mk(1, "prompt"), mk(2, "prompt"), mk(3, "prompt"))
	} else {
		ps = append(ps, mk(0, beh))
	}

	// bring every plugin into its state
	for _, p := range ps {
		o := r.DoNoHang("Start["+p.name+"]", 90*time.Second, ctx, func() (any, error) { return p.cl.Start() })
		if o.Hung {
			return
		}
		if strings.HasPrefix(p.beh, "failed-handshake") {
			if o.Err == nil {
				r.Violate("setup", "bad handshake accepted", "")
			}
			continue
		}
		if o.Err != nil {
			r.Violate("setup", "start failed "+ctx, o.Err.Error()+"\n"+r.HLog.String())
			return
		}
		if launch == "reattach" {
			rc := p.cl.ReattachConfig()
			if rc == nil {
				r.Violate("setup", "no reattach config "+ctx, "")
				return
			}
			p.a = p.cl
			p.cl = plugin.NewClient(&plugin.ClientConfig{
				HandshakeConfig: plugins.Handshake, Plugins: h.PluginSet(base.Proto, plugins.NewShared("host")),
				AllowedProtocols: []plugin.Protocol{plugin.ProtocolNetRPC, plugin.ProtocolGRPC},
				Logger:           r.Logger("hostB"), Reattach: rc, Managed: pat == "cleanup-clients",
			})
			if o := r.DoNoHang("StartB["+p.name+"]", 60*time.Second, ctx, func() (any, error) { return p.cl.Start() }); o.Err != nil || o.Hung {
				if !o.Hung && w.FaultCount("conn.rst") == 0 {
					r.Violate("setup", "reattach failed "+ctx, fmt.Sprint(o.Err))
				}
				return
			}
		}
		if pat == "two-hosts" {
			// both hosts are connected before either shuts the plugin down (a host
			// that cannot reach the plugin any more - its listener is gone once
			// the first request arrived - force-kills it, by design)
			if o := r.DoNoHang("ClientA["+p.name+"]", 60*time.Second, ctx, func() (any, error) { return p.a.Client() }); o.Hung {
				return
			} else if o.Err != nil {
				if w.FaultCount("conn.rst") == 0 {
					r.Violate("setup", "launching host connect failed "+ctx, fmt.Sprint(o.Err))
				}
				return
			}
		}
		var cmd plugins.Cmd
		if p.beh != "never-connected" && pat != "race-client" {
			o = r.DoNoHang("Client["+p.name+"]", 60*time.Second, ctx, func() (any, error) {
				cp, err := p.cl.Client()
				if err != nil {
					return nil, err
				}
				return cp.Dispense(h.PluginName)
			})
			if o.Hung {
				return
			}
			if o.Err != nil && w.FaultCount("conn.rst") > 0 {
				// the connection was reset while connecting: Kill is judged all the same
				w.Probe("setup.connect-reset")
			} else if o.Err != nil {
				r.Violate("setup", "connect failed "+ctx, fmt.Sprint(o.Err))
				return
			} else {
				cmd = o.Val.(plugins.Cmd)
			}
		}
		proc := w.ProcByName(p.name)
		switch p.beh {
		case "stopped":
			proc.Stop()
			w.CountFault("proc.stop")
		case "crashed":
			proc.Crash(137, "crashed before Kill")
			w.CountFault("proc.crash")
			time.Sleep(100 * time.Millisecond)
		case "busy":
			if cmd != nil {
				go k.Trap(func() { cmd.Do("sleep", "5000000000") })
				time.Sleep(10 * time.Millisecond)
			}
		}
	}

	// the call pattern
	const B = 60 * time.Second
	killOne := func(p *c04Plugin, tag string) h.Outcome {
		bound := B + 60*time.Second
		if r.Spec.P("dwell", "") != "" {
			// a plugin that exits at once (or after 100 ms of cleanup) on request:
			// grace period (2 s) + one poll of the reattached pid (1 s) + slack
			bound = 6 * time.Second
		}
		return r.Do("Kill["+p.name+"]"+tag, bound, func() (any, error) { p.cl.Kill(); return nil, nil })
	}
	inj0 := w.InjectedTotal()
	if d := r.Spec.P("dwell", ""); d != "" {
		time.Sleep(parseDur(d))
	}
	t0 := w.Now()
	for _, p := range ps {
		p.reqAt = t0
		if proc := w.ProcByName(p.name); proc != nil {
			p.aliveAtReq = proc.Alive()
		}
	}
	var outs []h.Outcome
	switch pat {
	case "single":
		outs = append(outs, killOne(ps[0], ""))
	case "twice":
		outs = append(outs, killOne(ps[0], "#1"), killOne(ps[0], "#2"))
	case "concurrent3":
		var wg sync.WaitGroup
		var mu sync.Mutex
		for i := 0; i < 3; i++ {
			i := i
			wg.Add(1)
			go k.Trap(func() {
				defer wg.Done()
				o := killOne(ps[0], fmt.Sprintf("#c%d", i))
				mu.Lock()
				outs = append(outs, o)
				mu.Unlock()
			})
		}
		wg.Wait()
	case "race-client":
		var wg sync.WaitGroup
		wg.Add(1)
		go k.Trap(func() {
			defer wg.Done()
			r.Do("Client[race]", B+60*time.Second, func() (any, error) { return ps[0].cl.Client() })
		})
		time.Sleep(time.Duration(w.Range("race/offset", 4)) * time.Millisecond)
		outs = append(outs, killOne(ps[0], ""))
		wg.Wait()
		// a Client() that raced may have re-created the connection; Kill again is allowed and must return
		outs = append(outs, killOne(ps[0], "#after"))
	case "two-hosts":
		// the launching host's client first, the reattached one's a little later
		// (while the plugin is on its way out)
		var wg sync.WaitGroup
		var mu sync.Mutex
		wg.Add(1)
		go k.Trap(func() {
			defer wg.Done()
			o := r.Do("Kill[launching host]", B+60*time.Second, func() (any, error) { ps[0].a.Kill(); return nil, nil })
			mu.Lock()
			outs = append(outs, o)
			mu.Unlock()
		})
		time.Sleep(parseDur(r.Spec.P("off", "0")))
		o := killOne(ps[0], "#reattached")
		mu.Lock()
		outs = append(outs, o)
		mu.Unlock()
		wg.Wait()
	case "cleanup-racing-newclient":
		// other goroutines create (and never start) managed clients while the
		// running ones are cleaned up: every client that was running when
		// CleanupClients was called must be gone when it returns
		stopSpin := make(chan struct{})
		var swg sync.WaitGroup
		for g := 0; g < 2; g++ {
			swg.Add(1)
			go k.Trap(func() {
				defer swg.Done()
				for i := 0; i < 40; i++ {
					select {
					case <-stopSpin:
						return
					default:
					}
					cc := base
					cc.Name = fmt.Sprintf("never-started-%d", i)
					cc.Path = "/bin/never-started"
					cc.Managed = true
					r.NewClient(cc)
					time.Sleep(time.Duration(w.Range("spin/gap", 3)) * 10 * time.Microsecond)
				}
			})
		}
		outs = append(outs, r.Do("CleanupClients", B+60*time.Second, func() (any, error) { plugin.CleanupClients(); return nil, nil }))
		close(stopSpin)
		swg.Wait()
	case "cleanup-clients":
		outs = append(outs, r.Do("CleanupClients", B+60*time.Second, func() (any, error) { plugin.CleanupClients(); return nil, nil }))
	case "preempt-kill":
		var wg sync.WaitGroup
		var once sync.Once
		var mu sync.Mutex
		w.Callbacks = map[string]func(){"kill2": func() {
			once.Do(func() {
				wg.Add(1)
				go k.Trap(func() {
					defer wg.Done()
					var o h.Outcome
					if r.Spec.P("via", "kill") == "cleanup" {
						o = r.Do("CleanupClients[second]", B+60*time.Second, func() (any, error) { plugin.CleanupClients(); return nil, nil })
					} else {
						o = killOne(ps[0], "#second")
					}
					mu.Lock()
					outs = append(outs, o)
					mu.Unlock()
				})
			})
		}}
		mark := w.SitePass()
		o := killOne(ps[0], "#first")
		mu.Lock()
		outs = append(outs, o)
		mu.Unlock()
		wg.Wait()
		if r.Spec.Profile {
			var sites []opSite
			for key, n := range w.SitePass() {
				proc, site, ok := strings.Cut(key, " ")
				if ok && proc == "host" && n > mark[key] {
					sites = append(sites, opSite{Site: site, First: mark[key] + 1, Last: n})
				}
			}
			sort.Slice(sites, func(i, j int) bool { return sites[i].Site < sites[j].Site })
			js, _ := json.Marshal(sites)
			r.Info["opsites"] = string(js)
		}
	}
	injected := w.InjectedTotal() - inj0
	for _, o := range outs {
		if o.Hung {
			r.Violate("hang", "op=Kill "+ctx, fmt.Sprintf("Kill still outstanding after %v simulated\n%s", o.Took, r.HostStacks("goplugin")))
			return
		}
		if o.Took > B+o.Inject {
			r.Violate("slow-kill", ctx, fmt.Sprintf("Kill took %v", o.Took))
		}
	}
	// after Kill returned
	for _, p := range ps {
		proc := w.ProcByName(p.name)
		if proc == nil {
			continue
		}
		pctx := ctx
		if len(ps) > 1 {
			pctx = fmt.Sprintf("%s member=%s", ctx, p.beh)
		}
		if proc.Alive() {
			r.Violate("process-left-behind", pctx, "plugin process still alive after Kill returned")
			continue
		}
		// reaped: the kernel saw the parent's wait
		deadline := 3 * time.Second
		for waited := time.Duration(0); proc.State() != k.Reaped && waited < deadline; waited += 100 * time.Millisecond {
			time.Sleep(100 * time.Millisecond)
		}
		if proc.State() != k.Reaped {
			r.Violate("not-reaped", pctx, "plugin exited but was never waited for (zombie) 3s after Kill")
		}
		if !p.cl.Exited() {
			// Exited is set by the wait goroutine, which Kill waits for
			time.Sleep(2 * time.Second)
			if !p.cl.Exited() {
				r.Violate("not-exited", pctx, "Kill returned and the process is gone but Exited() is false")
			}
		}
		graceful := p.beh == "prompt" || p.beh == "cleanup:0" || p.beh == "cleanup:100ms" || p.beh == "cleanup:500ms" || p.beh == "never-connected"
		if pat == "race-client" {
			graceful = false // a racing Client() legitimately disturbs the graceful path
		}
		if graceful && injected < 200*time.Millisecond && w.FaultCount("conn.latency") == 0 && w.FaultCount("conn.rst") == 0 {
			w.Probe("graceful.expected")
			if proc.GotKill {
				r.Violate("killed-despite-graceful-exit", pctx, fmt.Sprintf("the plugin exits by itself within 500ms of the shutdown request but received SIGKILL (exited at %v, request at %v)", proc.ExitedAt, p.reqAt))
			}
			if len(p.beh) > 8 && p.beh[:8] == "cleanup:" && !w.Exists(p.marker) {
				r.Violate("cleanup-cut-short", pctx, "the plugin's cleanup marker was not written")
			}
		}
		if (p.beh == "ignore" || p.beh == "stopped") && !p.aliveAtReq {
			// (a connection reset during set-up made the plugin give up by itself)
			w.Probe("forcekill.moot-plugin-already-gone")
		} else if p.beh == "ignore" || p.beh == "stopped" {
			w.Probe("forcekill.expected")
			if !proc.GotKill {
				r.Violate("not-force-killed", pctx, "plugin never exits by itself but received no SIGKILL")
			}
		}
	}
}

func dwellLabel(c map[string]string) string {
	if c["dwell"] == "" {
		return ""
	}
	return "/dwell=" + c["dwell"]
}
