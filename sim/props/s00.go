package props

import (
	"fmt"
	"time"

	"simworld/h"
	"simworld/k"
	"simworld/plugins"
)

// S00 is the smoke/determinism workload: start, dispense, a few calls,
// brokered connection, ping, kill - for every protocol configuration.
func init() {
	Register(&Prop{ID: "S00", Plan: func(tier string, seed uint64, stage int, prev []*h.Result) []*k.Spec {
		if stage > 0 {
			return nil
		}
		var out []*k.Spec
		for _, proto := range []string{"netrpc", "grpc"} {
			for _, mux := range []string{"0", "1"} {
				if proto == "netrpc" && mux == "1" {
					continue
				}
				for _, tls := range []string{"none", "auto"} {
					for _, launch := range []string{"cmd", "runner"} {
						out = append(out, sp("S00", fmt.Sprintf("%s/mux%s/%s/%s", proto, mux, tls, launch), seed, P("proto", proto, "mux", mux, "tls", tls, "launch", launch)))
					}
				}
			}
		}
		return out
	}, Run: runS00})
}

var raceProbe int

func runS00(r *h.Run) {
	if r.Spec.P("raceprobe", "") == "1" {
		// deliberate unsynchronised access: proves the race worker reports races
		done := make(chan bool)
		go func() { raceProbe++; done <- true }()
		raceProbe++ // RACE_SELFTEST
		<-done
	}
	c := r.ConfFromParams()
	c.Translate = r.Spec.P("xlate", "0") == "1"
	r.InstallPlugin(&c)
	cl := r.NewClient(c)
	o := r.DoNoHang("Start", 90*time.Second, c.String(), func() (any, error) { return cl.Start() })
	if o.Err != nil {
		r.Violate("smoke", "start failed "+c.String(), o.Err.Error()+"\n"+r.HLog.String())
		return
	}
	o = r.DoNoHang("Client", 60*time.Second, c.String(), func() (any, error) { return cl.Client() })
	if o.Err != nil {
		r.Violate("smoke", "client failed "+c.String(), o.Err.Error()+"\n"+r.HLog.String())
		return
	}
	cp := o.Val.(interface {
		Dispense(string) (interface{}, error)
		Ping() error
	})
	o = r.DoNoHang("Dispense", 60*time.Second, c.String(), func() (any, error) { return cp.Dispense(h.PluginName) })
	if o.Err != nil {
		r.Violate("smoke", "dispense failed "+c.String(), o.Err.Error()+"\n"+r.HLog.String())
		return
	}
	cmd := o.Val.(plugins.Cmd)
	o = r.DoNoHang("Do(tag)", 60*time.Second, c.String(), func() (any, error) { return cmd.Do("tag", "") })
	if o.Err != nil || o.Val.(string) == "" {
		r.Violate("smoke", "tag failed "+c.String(), fmt.Sprint(o.Err, o.Val))
	}
	r.Info["tag"] = fmt.Sprint(o.Val)
	// brokered connection host -> plugin
	o = r.DoNoHang("Do(accept)", 60*time.Second, c.String(), func() (any, error) { return cmd.Do("accept", "7") })
	if o.Err != nil {
		r.Violate("smoke", "accept failed "+c.String(), fmt.Sprint(o.Err))
	}
	o = r.DoNoHang("HostDial(7)", 60*time.Second, c.String(), func() (any, error) { return h.HostDialPing(cmd, 7) })
	if o.Err != nil || o.Val.(string) != "id=7" {
		r.Violate("smoke", "host dial failed "+c.String(), fmt.Sprint(o.Err, o.Val)+"\n"+r.HLog.String())
	}
	// plugin -> host
	h.HostAccept(r, cmd, 9)
	o = r.DoNoHang("Do(dial)", 60*time.Second, c.String(), func() (any, error) { return cmd.Do("dial", "9") })
	if o.Err != nil || o.Val.(string) != "id=9" {
		r.Violate("smoke", "plugin dial failed "+c.String(), fmt.Sprint(o.Err, o.Val)+"\n"+r.HLog.String())
	}
	o = r.DoNoHang("Ping", 60*time.Second, c.String(), func() (any, error) { return nil, cp.Ping() })
	if o.Err != nil {
		r.Violate("smoke", "ping failed "+c.String(), fmt.Sprint(o.Err))
	}
	o = r.DoNoHang("Kill", 120*time.Second, c.String(), func() (any, error) { cl.Kill(); return nil, nil })
	if !cl.Exited() {
		r.Violate("smoke", "not exited after kill "+c.String(), "")
	}
}
