package props

import (
	"crypto/tls"
	"errors"
	"fmt"
	"net"
	"strconv"
	"strings"
	"sync"
	"sync/atomic"
	"time"

	plugin "simworld/goplugin"
	"simworld/h"
	"simworld/k"
	"simworld/plugins"
	"simworld/shim/simos"
)

// C16: plugin serves only with the right cookie; announces one well-formed line.

var c16Cookies = []string{"right", "unset", "empty", "prefix", "suffix", "case", "other", "space"}
var c16Mux = []string{"unset", "empty", "true", "false", "junk", "1"}

func init() {
	Register(&Prop{ID: "C16",
		Meta: Meta{Level: "exploration",
			Rule:       "real plugin.Serve in a simulated process started directly by the harness with a drawn environment: cookie variable {right, unset, empty, prefix, suffix, case change, other, padded} x misconfigured ServeConfig {ok, empty key, empty value} x PLUGIN_MULTIPLEX_GRPC {unset, empty, true, false, junk, 1} x protocol x TLS {none, provider, client cert in env} x listener kind {unix, unix in a socket dir, unix in a socket dir whose name contains % verbs, unix with PLUGIN_UNIX_SOCKET_GROUP {known name, gid, unknown group, junk}, tcp with port range (GOOS knob), busy ports} x versioned sets; matrix enumerated, then seeded schedule noise inside Serve. Oracle: wrong cookie or misconfigured handshake -> exit status 1, no listener ever created, not one byte on stdout; right cookie -> the descriptor the process was started with as stdout carries exactly one line with 6 fields (7 iff the mux variable is non-empty), at the very write of its newline (kernel tap) a live listener exists at the announced address, a connect right after succeeds, and later output of the plugin's own code never reaches that descriptor",
			Exhaustive: "cookie x handshake-config x mux-variable x protocol x TLS x listener-kind matrix"},
		Plan: func(tier string, seed uint64, stage int, prev []*h.Result) []*k.Spec {
			if stage > 0 {
				return nil
			}
			var cells []map[string]string
			for _, cookie := range c16Cookies {
				for _, hc := range []string{"ok", "nokey", "novalue"} {
					if hc != "ok" && cookie != "right" && cookie != "unset" {
						continue
					}
					for _, mux := range c16Mux {
						for _, proto := range []string{"netrpc", "grpc"} {
							for _, tlsm := range []string{"none", "provider", "envcert", "provider-error"} {
								for _, ln := range []string{"unix", "unixdir", "unixdirpct", "tcp", "tcpbusy", "unixgroup", "unixgroup-gid", "unixgroup-unknown", "unixgroup-junk"} {
									if strings.HasPrefix(ln, "unixgroup") && (cookie != "right" || hc != "ok" || tlsm != "none") {
										continue
									}
									// keep the matrix affordable: vary listener kind and tls fully only for the right cookie
									// (a TLS provider that FAILS is tried with every cookie value: the refusal must not depend on it)
									if cookie != "right" && (ln != "unix" || (tlsm != "none" && tlsm != "provider-error")) {
										continue
									}
									if tlsm == "provider-error" && (ln != "unix" || (mux != "unset" && mux != "true")) {
										continue
									}
									if cookie == "right" && hc == "ok" && mux != "unset" && mux != "true" && ln != "unix" && ln != "unixdirpct" {
										continue
									}
									cells = append(cells, P("cookie", cookie, "hc", hc, "muxenv", mux, "proto", proto, "tlsm", tlsm, "ln", ln))
									if cookie == "right" && hc == "ok" && mux == "unset" && tlsm == "none" {
										// whatever else is in the environment, only the handshake line may appear on stdout
										for _, ve := range []string{"unset", "empty", "1,", "1, 2", "v2,1", "1,2,x", ",", "9"} {
											cells = append(cells, P("cookie", cookie, "hc", hc, "muxenv", mux, "proto", proto, "tlsm", tlsm, "ln", ln, "versenv", ve))
										}
										if ln == "tcp" {
											for _, pe := range []string{"junk-min", "junk-max", "min>max", "unset", "top-busy", "top-free", "all-busy", "one-port"} {
												cells = append(cells, P("cookie", cookie, "hc", hc, "muxenv", mux, "proto", proto, "tlsm", tlsm, "ln", ln, "portenv", pe))
											}
										}
									}
								}
							}
						}
					}
				}
			}
			if tier == "selftest" {
				return seeded("C16", seed, 6, func(i int, sd uint64) *k.Spec {
					s := &k.Spec{Seed: sd, Params: cp(cells[int(k.H(sd, "cell", 0)%uint64(len(cells)))])}
					swarm(s, "server.go")
					return s
				})
			}
			var out []*k.Spec
			for i, c := range cells {
				out = append(out, sp("C16", fmt.Sprintf("cell/%d/%s/%s/%s/%s/%s/%s", i, c["cookie"], c["hc"], c["muxenv"], c["proto"], c["tlsm"], c["ln"]), seed, c))
			}
			for _, cc := range c03Confs {
				out = append(out, sp("C16", "serve-twice/"+confLabel(cc), seed, cp(cc, "servetwice", "1")))
			}
			n := 800
			if tier == "thorough" {
				n = 150000
			}
			out = append(out, seeded("C16", seed, n, func(i int, sd uint64) *k.Spec {
				s := &k.Spec{Seed: sd, Params: cp(cells[int(k.H(sd, "cell", 0)%uint64(len(cells)))])}
				swarm(s, "server.go:Serve,server.go:serverListener")
				if s.HotPermille == 0 {
					s.HotPermille = 100
					s.DelayClass = "tiny"
				}
				return s
			})...)
			return out
		},
		Run: runC16,
	})
}

// runC16ServeTwice: the plugin's main calls Serve again after the first Serve
// returned (the host asked it to shut down): whatever the second one does, the
// plugin's real stdout carries the one handshake line the host was given.
func runC16ServeTwice(r *h.Run) {
	w := r.W
	c := r.ConfFromParams()
	ctx := "conf=" + c.String() + " serve-called-twice"
	var mu sync.Mutex
	var raw []byte
	w.OnPipeWrite = func(pipe string, p *k.Proc, data []byte) {
		if pipe == "stdout.plugin" {
			mu.Lock()
			raw = append(raw, data...)
			mu.Unlock()
		}
	}
	serves := 0
	c.PluginMain = func(serve func()) {
		serves++
		serve()
		serves++
		serve()
	}
	r.InstallPlugin(&c)
	cl := r.NewClient(c)
	o := r.DoNoHang("Client+Dispense", 120*time.Second, ctx, func() (any, error) {
		cp, err := cl.Client()
		if err != nil {
			return nil, err
		}
		return cp.Dispense(h.PluginName)
	})
	if o.Err != nil || o.Hung {
		r.Violate("setup", "connect "+ctx, fmt.Sprint(o.Err))
		return
	}
	r.DoNoHang("Kill", 150*time.Second, ctx, func() (any, error) { cl.Kill(); return nil, nil })
	time.Sleep(3 * time.Second)
	mu.Lock()
	out := string(raw)
	mu.Unlock()
	if serves >= 2 {
		w.Probe("serve.second-call-reached")
	}
	if n := strings.Count(out, "\n"); n != 1 || strings.Count(out, "|") < 4 {
		r.Violate("stdout-not-one-line", ctx, fmt.Sprintf("raw stdout of the plugin process: %q", firstN(out, 300)))
	}
}

func runC16(r *h.Run) {
	if r.Spec.P("servetwice", "") == "1" {
		runC16ServeTwice(r)
		return
	}
	w := r.W
	cookie, hc, muxenv := r.Spec.P("cookie", "right"), r.Spec.P("hc", "ok"), r.Spec.P("muxenv", "unset")
	proto, tlsm, ln := r.Spec.P("proto", "netrpc"), r.Spec.P("tlsm", "none"), r.Spec.P("ln", "unix")
	ctx := fmt.Sprintf("cookie=%s handshakecfg=%s mux=%s proto=%s tls=%s listener=%s", cookie, hc, muxenv, proto, tlsm, ln)
	hs := plugins.Handshake
	switch hc {
	case "nokey":
		hs.MagicCookieKey = ""
	case "novalue":
		hs.MagicCookieValue = ""
	}
	var lineSeen atomic.Bool
	sh := plugins.NewShared("v1/" + proto)
	w.RegisterProgram("/bin/served", []byte("#!served"), func() {
		sc := &plugin.ServeConfig{HandshakeConfig: hs, Plugins: h.PluginSet(proto, sh)}
		if proto == "grpc" {
			sc.GRPCServer = plugin.DefaultGRPCServer
		}
		if tlsm == "provider-error" {
			sc.TLSProvider = func() (*tls.Config, error) { return nil, errors.New("tls init: no certificate available") }
		}
		if tlsm == "provider" {
			sc.TLSProvider = func() (*tls.Config, error) {
				certPEM, keyPEM := h.SelfSignedPEM()
				cert, err := tls.X509KeyPair(certPEM, keyPEM)
				if err != nil {
					return nil, err
				}
				return &tls.Config{Certificates: []tls.Certificate{cert}}, nil
			}
		}
		// the plugin's own code prints something a while after serving began
		go func() {
			// (a while after: once Serve has announced itself - output the
			// plugin's code produces before that is the plugin author's own
			// business and would make any stall inside Serve look like a defect)
			for i := 0; !lineSeen.Load(); i++ {
				if i > 600 {
					return
				}
				time.Sleep(50 * time.Millisecond)
			}
			time.Sleep(1500 * time.Millisecond)
			fmt.Fprintf(simos.GetStdout(), "USER OUTPUT ON STDOUT\n")
			fmt.Fprintf(simos.GetStderr(), "user output on stderr\n")
		}()
		plugin.Serve(sc)
	})
	env := []string{"PATH=/bin"}
	right := plugins.Handshake.MagicCookieValue
	key := plugins.Handshake.MagicCookieKey
	switch cookie {
	case "right":
		env = append(env, key+"="+right)
	case "empty":
		env = append(env, key+"=")
	case "prefix":
		env = append(env, key+"="+right[:len(right)-1])
	case "suffix":
		env = append(env, key+"="+right+"x")
	case "case":
		env = append(env, key+"="+strings.ToUpper(right))
	case "other":
		env = append(env, key+"=zzzz")
	case "space":
		env = append(env, key+"= "+right)
	}
	switch muxenv {
	case "empty":
		env = append(env, "PLUGIN_MULTIPLEX_GRPC=")
	case "true", "false", "junk", "1":
		env = append(env, "PLUGIN_MULTIPLEX_GRPC="+muxenv)
	}
	versenv := r.Spec.P("versenv", "1")
	switch versenv {
	case "unset":
	case "empty":
		env = append(env, "PLUGIN_PROTOCOL_VERSIONS=")
	default:
		env = append(env, "PLUGIN_PROTOCOL_VERSIONS="+versenv)
	}
	if versenv != "1" {
		ctx += " versions-env=" + versenv
	}
	if tlsm == "envcert" {
		certPEM, _ := h.SelfSignedPEM()
		env = append(env, "PLUGIN_CLIENT_CERT="+string(certPEM))
	}
	var opts *k.SpawnOpts
	noListener := false
	switch ln {
	case "unixdir":
		w.Mkdir("/run/plugsock")
		w.Mkdir("/run")
		env = append(env, "PLUGIN_UNIX_SOCKET_DIR=/run/plugsock")
	case "unixgroup", "unixgroup-gid", "unixgroup-unknown", "unixgroup-junk":
		// the socket is to be made writable for a group: one that exists (by
		// name, by number), one that does not, a value that is neither
		w.Mkdir("/run")
		w.Mkdir("/run/plugsock")
		env = append(env, "PLUGIN_UNIX_SOCKET_DIR=/run/plugsock", "PLUGIN_UNIX_SOCKET_GROUP="+map[string]string{
			"unixgroup": "plugins", "unixgroup-gid": "2000", "unixgroup-unknown": "nosuchgroup", "unixgroup-junk": "12x"}[ln])
		if ln == "unixgroup-unknown" || ln == "unixgroup-junk" {
			noListener = true
		}
	case "unixdirpct":
		// a directory name that happens to contain formatting verbs
		d := []string{"/run/my%20plugins", "/run/cpu100%", "/run/%s%d%v"}[w.Range("pctdir", 3)]
		w.Mkdir("/run")
		w.Mkdir(d)
		env = append(env, "PLUGIN_UNIX_SOCKET_DIR="+d)
	case "tcp", "tcpbusy":
		opts = &k.SpawnOpts{GOOS: "windows"}
		listenerMayFail := false
		switch r.Spec.P("portenv", "") {
		case "junk-min":
			env = append(env, "PLUGIN_MIN_PORT=abc", "PLUGIN_MAX_PORT=10005")
			listenerMayFail = true
		case "junk-max":
			env = append(env, "PLUGIN_MIN_PORT=10000", "PLUGIN_MAX_PORT=1e4")
			listenerMayFail = true
		case "min>max":
			env = append(env, "PLUGIN_MIN_PORT=10005", "PLUGIN_MAX_PORT=10000")
			listenerMayFail = true
		case "top-busy":
			// the range ends at the highest port there is, and all of it is taken
			env = append(env, "PLUGIN_MIN_PORT=65533", "PLUGIN_MAX_PORT=65535")
			for p := 65533; p <= 65535; p++ {
				w.SetPortBusy(p)
			}
			listenerMayFail = true
		case "top-free":
			env = append(env, "PLUGIN_MIN_PORT=65534", "PLUGIN_MAX_PORT=65535")
			w.SetPortBusy(65534)
		case "all-busy":
			env = append(env, "PLUGIN_MIN_PORT=10000", "PLUGIN_MAX_PORT=10002")
			for p := 10000; p <= 10002; p++ {
				w.SetPortBusy(p)
			}
			listenerMayFail = true
		case "one-port":
			env = append(env, "PLUGIN_MIN_PORT=10004", "PLUGIN_MAX_PORT=10004")
		case "unset":
		default:
			env = append(env, "PLUGIN_MIN_PORT=10000", "PLUGIN_MAX_PORT=10005")
		}
		if listenerMayFail {
			ctx += " portenv=" + r.Spec.P("portenv", "")
			noListener = true
		}
		if ln == "tcpbusy" {
			for p := 10000; p <= 10003; p++ {
				w.SetPortBusy(p)
			}
		}
	}
	expectServe := cookie == "right" && hc == "ok"
	if expectServe && tlsm == "provider-error" {
		// right cookie, but the plugin cannot set up its transport security: it
		// must not announce anything (its exit status is not specified)
		noListener = true
	}
	if noListener {
		// the plugin cannot create its listener: it must not announce anything
		rp, err := r.SpawnRaw("plugin", "/bin/served", env, opts)
		if err != nil {
			r.Violate("setup", "spawn failed", err.Error())
			return
		}
		time.Sleep(5 * time.Second)
		if out := rp.Stdout.String(); out != "" {
			r.Violate("stdout-without-listener", ctx, fmt.Sprintf("no listener could be created but stdout carries %q", firstN(out, 200)))
		}
		rp.P.Kill()
		return
	}

	// kernel tap on the raw stdout: at the newline the listener must exist
	var mu sync.Mutex
	var raw []byte
	checked := false
	listenerAtNewline := ""
	w.OnPipeWrite = func(pipe string, p *k.Proc, data []byte) {
		if pipe != "stdout.plugin" {
			return
		}
		mu.Lock()
		defer mu.Unlock()
		raw = append(raw, data...)
		if !checked && strings.Contains(string(raw), "\n") {
			checked = true
			lineSeen.Store(true)
			f := strings.Split(strings.TrimSpace(firstLine(string(raw))), "|")
			if len(f) >= 4 {
				l := w.ListenerAt(f[2], f[3])
				if l == nil {
					listenerAtNewline = fmt.Sprintf("no live listener at %s|%s when the line's newline was written", f[2], f[3])
				} else {
					listenerAtNewline = "ok"
				}
			}
		}
	}
	rp, err := r.SpawnRaw("plugin", "/bin/served", env, opts)
	if err != nil {
		r.Violate("setup", "spawn failed", err.Error())
		return
	}
	// wait for the line or the exit
	t0 := w.Now()
	var hostConnErr error
	connected := false
wait:
	for {
		mu.Lock()
		got := checked
		mu.Unlock()
		if got && !connected {
			connected = true
			f := strings.Split(strings.TrimSpace(firstLine(rp.Stdout.String()+string(raw))), "|")
			if len(f) >= 4 {
				o := r.Do("connect", 10*time.Second, func() (any, error) {
					c, err := w.Dial(f[2], f[3])
					if err == nil {
						time.Sleep(10 * time.Millisecond)
						c.Close()
					}
					return nil, err
				})
				hostConnErr = o.Err
				if o.Hung {
					hostConnErr = fmt.Errorf("connect hung")
				}
			}
			break wait
		}
		select {
		case <-rp.P.ExitChan():
			break wait
		case <-time.After(50 * time.Millisecond):
		}
		if w.Now()-t0 > 20*time.Second+w.InjectedTotal() {
			break wait
		}
	}
	time.Sleep(3 * time.Second) // let the user output happen
	listens := 0
	for _, ev := range w.Events {
		if ev.Proc == "plugin" && ev.Kind == "listen" {
			listens++
		}
	}
	mu.Lock()
	out := string(raw)
	mu.Unlock()
	if !expectServe {
		w.Probe("expect.refuse")
		if rp.P.Alive() {
			r.Violate("served-without-cookie", ctx, "process still running 20s after start with a wrong cookie / misconfigured handshake")
		} else if rp.P.ExitCode != 1 || rp.P.Signaled {
			r.Violate("wrong-exit-status", ctx, fmt.Sprintf("exit code %d signaled=%v, want 1", rp.P.ExitCode, rp.P.Signaled))
		}
		if listens > 0 {
			r.Violate("listener-without-cookie", ctx, fmt.Sprintf("%d listener(s) created", listens))
		}
		if out != "" {
			r.Violate("stdout-without-cookie", ctx, fmt.Sprintf("stdout: %q", out))
		}
		rp.P.Kill()
		return
	}
	w.Probe("expect.serve")
	if strings.HasSuffix(out, "\nUSER OUTPUT ON STDOUT\n") && w.InjectedTotal() >= time.Second {
		// Serve was stalled between writing the line and redirecting os.Stdout:
		// what the plugin's OWN code printed in that window went to the real
		// stdout. The property speaks of what go-plugin itself writes there.
		w.Probe("user-output-before-redirect")
		out = strings.TrimSuffix(out, "USER OUTPUT ON STDOUT\n")
	}
	if ln == "tcpbusy" || ln == "tcp" {
		w.Probe("listener.tcp")
	}
	lines := strings.Split(out, "\n")
	if len(out) == 0 || !strings.HasSuffix(out, "\n") || len(lines) != 2 {
		r.Violate("stdout-not-one-line", ctx, fmt.Sprintf("raw stdout of the plugin process: %q (stderr %q)", firstN(out, 300), firstN(rp.Stderr.String(), 300)))
		rp.P.Kill()
		return
	}
	f := strings.Split(lines[0], "|")
	want := 6
	if muxenv != "unset" && muxenv != "empty" {
		want = 7
	}
	if muxenv == "empty" && (len(f) == 6 || len(f) == 7) {
		// a variable that is set but empty: the statement does not say whether
		// that counts as "the host signalled"; either form is accepted
		want = len(f)
	}
	if len(f) != want {
		r.Violate("wrong-field-count", ctx, fmt.Sprintf("handshake line %q has %d fields, want %d", lines[0], len(f), want))
	} else {
		if f[0] != "1" || f[1] != "1" || f[4] != proto {
			// (the plugin serves version 1 only: whatever list it is given, it announces 1)
			r.Violate("wrong-line-content", ctx, fmt.Sprintf("handshake line %q", lines[0]))
		}
		if tlsm == "envcert" && len(f[5]) < 50 {
			r.Violate("wrong-line-content", ctx+" cert missing", fmt.Sprintf("handshake line %q", lines[0]))
		}
		if tlsm != "envcert" && f[5] != "" {
			r.Violate("wrong-line-content", ctx+" unexpected cert", fmt.Sprintf("handshake line %q", firstN(lines[0], 200)))
		}
		if f[2] == "tcp" {
			// the announced port lies inside the range the host allowed
			lo, hi := 0, 0
			for _, kv := range env {
				if v, ok := strings.CutPrefix(kv, "PLUGIN_MIN_PORT="); ok {
					lo, _ = strconv.Atoi(v)
				}
				if v, ok := strings.CutPrefix(kv, "PLUGIN_MAX_PORT="); ok {
					hi, _ = strconv.Atoi(v)
				}
			}
			if _, ps, err := net.SplitHostPort(f[3]); err == nil && lo > 0 && hi >= lo {
				if pn, _ := strconv.Atoi(ps); pn < lo || pn > hi {
					r.Violate("wrong-line-content", ctx+" port-outside-range", fmt.Sprintf("announced %s, allowed range %d..%d", f[3], lo, hi))
				}
			}
		}
		if want == 7 && f[6] != "true" {
			r.Violate("wrong-line-content", ctx+" mux field", fmt.Sprintf("handshake line %q", firstN(lines[0], 200)))
		}
	}
	if listenerAtNewline != "ok" {
		r.Violate("line-before-listener", ctx, listenerAtNewline)
	}
	if hostConnErr != nil {
		r.Violate("not-accepting", ctx, fmt.Sprintf("connect right after the line failed: %v", hostConnErr))
	}
	rp.P.Kill()
}

func firstN(s string, n int) string {
	if len(s) > n {
		return s[:n] + "..."
	}
	return s
}
