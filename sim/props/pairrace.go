package props

import (
	"encoding/json"
	"fmt"
	"sort"
	"strings"
	"sync"
	"time"

	"simworld/h"
	"simworld/k"
)

// The accept/dial rendezvous with ONE context switch placed at every
// statement: a profile run establishes one brokered connection (direction x
// order) and records every go-plugin statement either process passes while it
// does; then one run per (process, statement, occurrence) in which the PEER's
// half of the pair is issued exactly while that goroutine is at that statement
// (if it has not been issued yet; otherwise the goroutine simply stays there
// for 2 ms). Shared by C06 (net/rpc MuxBroker), C07 (gRPC broker) and C08
// (multiplexed gRPC broker).

var pairRaceModes = []map[string]string{
	P("prdir", "h", "prord", "a"), // host dials, accept first
	P("prdir", "h", "prord", "d"),
	P("prdir", "p", "prord", "a"), // plugin dials
	P("prdir", "p", "prord", "d"),
}

func pairRaceSpecs(prop string, base map[string]string, tier string, seed uint64, stage int, prev []*h.Result) []*k.Spec {
	if tier == "selftest" {
		return nil
	}
	switch stage {
	case 0:
		var out []*k.Spec
		for _, m := range pairRaceModes {
			s := sp(prop, fmt.Sprintf("pairrace-profile/%s%s", m["prdir"], m["prord"]), seed, cp(base, "pairrace", "profile", "prdir", m["prdir"], "prord", m["prord"]))
			s.Profile = true
			out = append(out, s)
		}
		return out
	case 1:
		maxOcc := 2
		if tier == "thorough" {
			maxOcc = 5
		}
		var out []*k.Spec
		for _, pr := range prev {
			if pr.Spec == nil || pr.Spec.P("pairrace", "") != "profile" {
				continue
			}
			var sites []opSite
			json.Unmarshal([]byte(pr.Info["opsites"]), &sites)
			for _, st := range sites {
				for occ := st.First; occ <= st.Last && occ < st.First+maxOcc; occ++ {
					s := sp(prop, fmt.Sprintf("pair-at/%s%s/%s:%s#%d", pr.Spec.P("prdir", ""), pr.Spec.P("prord", ""), st.Proc, st.Site, occ), seed, cp(pr.Spec.Params, "pairrace", "at"))
					s.Triggers = []*k.Trigger{{On: "site", Proc: st.Proc, Key: st.Site, Occ: occ, Act: "callsleep:peer:2000000"}}
					out = append(out, s)
				}
			}
		}
		return out
	}
	return nil
}

func runPairRace(r *h.Run, c h.Conf, kind string) {
	w := r.W
	hostDials := r.Spec.P("prdir", "h") == "h"
	acceptFirst := r.Spec.P("prord", "a") == "a"
	dir := map[bool]string{true: "host->plugin", false: "plugin->host"}[hostDials]
	ord := map[bool]string{true: "accept-first", false: "dial-first"}[acceptFirst]
	ctx := fmt.Sprintf("broker=%s rendezvous dir=%s order=%s", kind, dir, ord)
	if len(r.Spec.Triggers) > 0 {
		t := r.Spec.Triggers[0]
		ctx += fmt.Sprintf(" switch-at=%s:%s", t.Proc, strings.SplitN(t.Key, "#", 2)[0])
	}
	s := open(r, c)
	if s == nil {
		return
	}
	id := uint32(6000)
	// the two halves; each is issued exactly once, by the main flow or by the trigger
	var dialOnce, acceptOnce sync.Once
	var dialOut h.Outcome
	dialDone := make(chan struct{})
	asHost := func(f func()) {
		go func() {
			r.Host.Adopt()
			k.Trap(f)
		}()
	}
	dial := func() {
		dialOnce.Do(func() {
			asHost(func() {
				defer close(dialDone)
				dialOut = r.Do(fmt.Sprintf("Dial(%d)[%s]", id, dir), 60*time.Second, func() (any, error) {
					if hostDials {
						return h.HostDialPing(s.cmd, id)
					}
					return s.cmd.Do("dial", fmt.Sprint(id))
				})
			})
		})
	}
	accept := func() {
		acceptOnce.Do(func() {
			asHost(func() {
				if hostDials {
					s.cmd.Do("accept", fmt.Sprint(id))
				} else {
					h.HostAccept(r, s.cmd, id)
				}
			})
		})
	}
	second := dial
	if !acceptFirst {
		second = accept
	}
	w.Callbacks = map[string]func(){"peer": second}
	mark := w.SitePass()
	inj0 := w.InjectedTotal()
	if acceptFirst {
		accept()
	} else {
		dial()
	}
	// the main flow issues the other half 100 ms later unless the trigger did
	time.Sleep(100 * time.Millisecond)
	second()
	select {
	case <-dialDone:
	case <-time.After(90 * time.Second):
		return // reported by Do
	}
	if r.Spec.Profile {
		var sites []opSite
		for key, n := range w.SitePass() {
			proc, site, ok := strings.Cut(key, " ")
			if !ok || (proc != "host" && proc != "plugin") || n <= mark[key] {
				continue
			}
			sites = append(sites, opSite{Proc: proc, Site: site, First: mark[key] + 1, Last: n})
		}
		sort.Slice(sites, func(i, j int) bool { return sites[i].Proc+sites[i].Site < sites[j].Proc+sites[j].Site })
		js, _ := json.Marshal(sites)
		r.Info["opsites"] = string(js)
	}
	if len(r.Spec.Triggers) > 0 {
		if w.FaultCount("trigger.callsleep") == 0 {
			w.Probe("pairrace.site-not-reached")
		} else {
			w.Probe("pairrace.site-reached")
		}
	}
	want := fmt.Sprintf("id=%d", id)
	switch {
	case dialOut.Hung:
		r.Violate("hang", "op=Dial "+ctx, "dial never returned")
		return
	case dialOut.Err != nil:
		if w.InjectedTotal()-inj0 < time.Second {
			r.Violate("lost-pair", ctx, fmt.Sprintf("accept and dial of id %d were issued at most 100 ms apart, but the dial failed: %v\n%s", id, dialOut.Err, r.HLog.String()))
		}
	case dialOut.Val.(string) != want:
		r.Violate("misroute", ctx, fmt.Sprintf("connection dialled for id %d was answered by %q", id, dialOut.Val))
	}
	// the connection and the broker still work: control ping, a fresh pair
	if o := r.DoNoHang("Ping", 60*time.Second, ctx, func() (any, error) { return nil, s.cp.Ping() }); o.Err != nil {
		r.Violate("main-conn-lost", ctx, fmt.Sprintf("ping on the main connection failed after the establishment: %v", o.Err))
	}
	id2 := id + 1
	if hostDials {
		s.cmd.Do("accept", fmt.Sprint(id2))
	} else {
		h.HostAccept(r, s.cmd, id2)
	}
	o := r.DoNoHang(fmt.Sprintf("FreshDial(%d)", id2), 60*time.Second, ctx, func() (any, error) {
		if hostDials {
			return h.HostDialPing(s.cmd, id2)
		}
		return s.cmd.Do("dial", fmt.Sprint(id2))
	})
	if !o.Hung {
		if o.Err != nil {
			r.Violate("lost-pair", ctx+" fresh-pair-after", fmt.Sprintf("the next establishment failed: %v", o.Err))
		} else if o.Val.(string) != fmt.Sprintf("id=%d", id2) {
			r.Violate("misroute", ctx+" fresh-pair-after", fmt.Sprintf("id %d answered by %q", id2, o.Val))
		}
	}
	s.kill()
}
