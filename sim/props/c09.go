package props

import (
	"fmt"
	"strings"
	"sync"
	"time"

	plugin "simworld/goplugin"
	"simworld/h"
	"simworld/k"
	"simworld/plugins"
)

// C09: brokers stay live under unmatched, duplicate or late peers.

var c09Kinds = []map[string]string{
	P("proto", "netrpc"),
	P("proto", "grpc"),
	P("proto", "grpc", "mux", "1"),
}

var c09Histories = []string{
	"dial-noaccept", "accept-nodial", "dup-dial2", "dup-dial3", "accept-at-expiry", "dial-at-accept-expiry", "dial-then-late-accept", "two-ids-unmatched", "peer-aborts-stream", "reaccept-nodial",
}

func init() {
	Register(&Prop{ID: "C09",
		Meta: Meta{Stages: 2, Level: "exploration",
			Rule: "real Client+Serve (net/rpc MuxBroker, net/rpc over AutoMTLS with a 3 s StartTimeout, gRPC broker, gRPC broker with multiplexing); a history of 1-3 abuse steps drawn from {dial without accept, accept without dial, 2-3 dials to one pending ID, accept issued at the expiry instant (5s +- eps) of a parked connection, late accept, several unmatched IDs, a broker stream opened and closed by the peer after 0-3 of the 4 ID bytes (net/rpc)} issued from either side (plus histories in which the peer is gone altogether: the plugin killed or frozen before Client(), before Dispense or after it, then three unmatched host accepts and dials), then a matched pair on a fresh ID in each direction, a Dispense, and Kill; plus Kill racing a broker operation in flight, one case per go-plugin statement the operation's goroutine passes (profiled in stage 0); fixed matrix (history x side x broker kind) plus seeded histories with schedule noise focused on the brokers; oracle: every unmatched call returns an error within 30s simulated (+ injected delay), the fresh pairs and the Dispense succeed, no panic, 10s after Kill no host goroutine is left in go-plugin broker code"},
		Plan: func(tier string, seed uint64, stage int, prev []*h.Result) []*k.Spec {
			if stage > 0 {
				if tier == "selftest" {
					return nil
				}
				return killRaceSpecs("C09", tier, seed, stage, prev)
			}
			var out []*k.Spec
			if tier != "selftest" {
				out = killRaceSpecs("C09", tier, seed, 0, nil)
			}
			// (the fourth kind: net/rpc over TLS with a start timeout shorter than
			// the history - the connection outlives it several times over)
			for _, kind := range append(append([]map[string]string(nil), c09Kinds...), P("proto", "netrpc", "tls", "auto", "starttimeout", "3s")) {
				for _, hist := range c09Histories {
					for _, side := range []string{"host", "plugin"} {
						eps := []string{"0"}
						if hist == "accept-at-expiry" || hist == "dial-at-accept-expiry" {
							eps = []string{"-2ms", "-1ns", "0", "1ns", "2ms"}
						}
						for _, e := range eps {
							out = append(out, sp("C09", fmt.Sprintf("fixed/%s%s%s/%s/%s/%s", kind["proto"], kind["mux"], kind["tls"], hist, side, e), seed, cp(kind, "hist", hist, "side", side, "eps", e)))
							if len(eps) > 1 {
								// the same cell with delays woven into the expiry paths of both brokers
								for v := 0; v < 4; v++ {
									s := sp("C09", fmt.Sprintf("fixed+delay%d/%s%s%s/%s/%s/%s", v, kind["proto"], kind["mux"], kind["tls"], hist, side, e), seed+uint64(v)*7919, cp(kind, "hist", hist, "side", side, "eps", e))
									s.Focus = "MuxBroker.Accept,MuxBroker.timeoutWait,MuxBroker.Run,GRPCBroker.timeoutWait,GRPCBroker.DialWithOptions,GRPCBroker.knock"
									s.DelayClass = "tiny"
									out = append(out, s)
								}
							}
						}
					}
				}
			}
			// the peer is gone altogether: the plugin died before / while the host connected
			for _, kind := range c09Kinds[1:] {
				for _, when := range []string{"before-client", "before-dispense", "after-dispense"} {
					for _, how := range []string{"kill", "stop"} {
						out = append(out, sp("C09", fmt.Sprintf("deadpeer/%s%s/%s/%s", kind["proto"], kind["mux"], when, how), seed, cp(kind, "hist", "deadpeer", "when", when, "how", how)))
					}
				}
			}
			// the mirror image: the HOST is gone (its connections dropped), the
			// plugin's own code accepts and dials
			for _, kind := range c09Kinds[1:] {
				for _, wait := range []string{"0", "200ms", "3s"} {
					out = append(out, sp("C09", fmt.Sprintf("hostgone/%s%s/%s", kind["proto"], kind["mux"], wait), seed, cp(kind, "hist", "hostgone", "wait", wait)))
				}
			}
			n := 600
			if tier == "thorough" {
				n = 150000
			}
			if tier == "selftest" {
				n = 4
			}
			out = append(out, seeded("C09", seed, n, func(i int, sd uint64) *k.Spec {
				s := &k.Spec{Seed: sd, Params: cp(c09Kinds[int(k.H(sd, "kind", 0)%3)], "hist", "random")}
				swarm(s, "mux_broker.go,grpc_broker.go:GRPCBroker")
				if s.DelayClass == "big" {
					s.DelayClass = "mid"
				}
				return s
			})...)
			return out
		},
		Run: runC09,
	})
}

// runC09Dead: unmatched accepts and dials on the host while the plugin is dead
// (or frozen) - with the broker's control stream never started, or broken.
func runC09Dead(r *h.Run) {
	w := r.W
	c := r.ConfFromParams()
	kind := c.Proto
	if c.Mux {
		kind += "+mux"
	}
	when, how := r.Spec.P("when", "before-client"), r.Spec.P("how", "kill")
	ctx := fmt.Sprintf("broker=%s peer=%s %s", kind, map[string]string{"kill": "dead", "stop": "frozen"}[how], when)
	r.InstallPlugin(&c)
	cl := r.NewClient(c)
	fault := func(at string) {
		if at != when {
			return
		}
		p := w.ProcByName("plugin")
		if how == "kill" {
			p.Crash(137, "killed: "+when)
		} else {
			p.Stop()
		}
		w.CountFault("proc." + how + "@" + when)
		time.Sleep(100 * time.Millisecond)
	}
	if o := r.DoNoHang("Start", 90*time.Second, ctx, func() (any, error) { return cl.Start() }); o.Err != nil || o.Hung {
		r.Violate("setup", "start "+ctx, fmt.Sprint(o.Err))
		return
	}
	fault("before-client")
	o := r.DoNoHang("Client", 60*time.Second, ctx, func() (any, error) { return cl.Client() })
	if o.Hung || o.Err != nil {
		return
	}
	cproto := o.Val.(plugin.ClientProtocol)
	fault("before-dispense")
	o = r.DoNoHang("Dispense", 60*time.Second, ctx, func() (any, error) { return cproto.Dispense(h.PluginName) })
	if o.Hung || o.Err != nil {
		return
	}
	gc := o.Val.(*plugins.GRPCClient)
	fault("after-dispense")
	const B = 30 * time.Second
	var wg sync.WaitGroup
	for i := 0; i < 3; i++ {
		id := uint32(2100 + i)
		wg.Add(2)
		go k.Trap(func() {
			defer wg.Done()
			o := r.Do(fmt.Sprintf("Accept(%d)[host]", id), B+10*time.Second, func() (any, error) {
				ln, err := gc.Broker.Accept(id)
				if err == nil {
					defer ln.Close()
				}
				return nil, err
			})
			if o.Hung {
				r.Violate("hang", "op=accept-nodial "+ctx, fmt.Sprintf("host-side Accept still outstanding after %v simulated\n%s", o.Took, h.StacksOf("host", "goplugin")))
			}
		})
		go k.Trap(func() {
			defer wg.Done()
			o := r.Do(fmt.Sprintf("Dial(%d)[host]", id+100), B+10*time.Second, func() (any, error) { return h.HostDialPing(gc, id+100) })
			if o.Hung {
				r.Violate("hang", "op=dial-noaccept "+ctx, fmt.Sprintf("host-side Dial still outstanding after %v simulated\n%s", o.Took, h.StacksOf("host", "goplugin")))
			} else if o.Err == nil {
				r.Violate("phantom", ctx+" dial without accept succeeded", "")
			}
		})
	}
	wg.Wait()
	ko := r.Do("Kill", 150*time.Second, func() (any, error) { cl.Kill(); return nil, nil })
	if ko.Hung {
		r.Violate("hang", "op=Kill "+ctx, h.StacksOf("host", "goplugin"))
		return
	}
	time.Sleep(10 * time.Second)
	if leaks := h.StacksOf("host", "goplugin.(*GRPCBroker)"); leaks != "" {
		r.Violate("goroutine-leak", "broker="+kind+" GRPCBroker goroutine left after Kill", leaks)
	}
}

// runC09HostGone: the host's connections drop; unmatched accepts and dials
// issued by the PLUGIN's own code must come back.
func runC09HostGone(r *h.Run) {
	w := r.W
	c := r.ConfFromParams()
	kind := c.Proto
	if c.Mux {
		kind += "+mux"
	}
	ctx := fmt.Sprintf("broker=%s peer=host-gone side=plugin", kind)
	var mu sync.Mutex
	hostEnds := map[*k.Endpoint]bool{}
	w.OnConnWrite = func(e *k.Endpoint, data []byte) {
		if o := e.Owner(); o != nil && o.Name == "host" {
			mu.Lock()
			hostEnds[e] = true
			mu.Unlock()
		}
	}
	s := open(r, c)
	if s == nil {
		return
	}
	// one ordinary pair first: the broker stream exists and works
	s.cmd.Do("accept", "2300")
	if o := r.DoNoHang("HostDial", 60*time.Second, ctx, func() (any, error) { return h.HostDialPing(s.cmd, 2300) }); o.Err != nil {
		r.Violate("setup", "pair before the host goes away "+ctx, fmt.Sprint(o.Err))
		return
	}
	if s.c.Sh == nil || len(s.c.Sh.Brokers) == 0 {
		r.Violate("setup", "no plugin-side broker recorded "+ctx, "")
		return
	}
	pb, _ := s.c.Sh.Brokers[len(s.c.Sh.Brokers)-1].(*plugin.GRPCBroker)
	plug := w.ProcByName("plugin")
	if pb == nil || plug == nil {
		return
	}
	mu.Lock()
	for e := range hostEnds {
		e.Reset()
	}
	mu.Unlock()
	w.CountFault("conn.rst@host-gone")
	time.Sleep(parseDur(r.Spec.P("wait", "200ms")))
	if !plug.Alive() {
		// (with multiplexing the plugin's only session is gone with the host's
		// connection: its server ends and the process exits)
		w.Probe("hostgone.plugin-exited-with-the-connection")
		return
	}
	const B = 30 * time.Second
	var wg sync.WaitGroup
	for i := 0; i < 3; i++ {
		id := uint32(2400 + i)
		wg.Add(2)
		go k.Trap(func() {
			defer wg.Done()
			o := r.Do(fmt.Sprintf("Accept(%d)[plugin]", id), B+10*time.Second, func() (any, error) {
				plug.Adopt() // the plugin's own code
				ln, err := pb.Accept(id)
				if err == nil {
					defer ln.Close()
				}
				return nil, err
			})
			if o.Hung && plug.Alive() {
				r.Violate("hang", "op=accept-nodial "+ctx, fmt.Sprintf("plugin-side Accept still outstanding after %v simulated\n%s", o.Took, h.StacksOf("plugin", "goplugin")))
			}
		})
		go k.Trap(func() {
			defer wg.Done()
			o := r.Do(fmt.Sprintf("Dial(%d)[plugin]", id+100), B+10*time.Second, func() (any, error) {
				plug.Adopt()
				conn, err := pb.Dial(id + 100)
				if err != nil {
					return nil, err
				}
				defer conn.Close()
				return plugins.PingConn(conn, 10*time.Second)
			})
			if o.Hung && plug.Alive() {
				r.Violate("hang", "op=dial-noaccept "+ctx, fmt.Sprintf("plugin-side Dial still outstanding after %v simulated\n%s", o.Took, h.StacksOf("plugin", "goplugin")))
			} else if o.Err == nil && !o.Hung {
				r.Violate("phantom", ctx+" dial without accept succeeded", "")
			}
		})
	}
	wg.Wait()
	if !plug.Alive() {
		return // it exited meanwhile: the outcomes above say nothing
	}
	w.Probe("hostgone.checked")
	plug.Crash(137, "end of run")
}

func runC09(r *h.Run) {
	if r.Spec.P("hist", "") == "hostgone" {
		runC09HostGone(r)
		return
	}
	if r.Spec.P("killrace", "") != "" {
		runKillRace(r, "C09")
		return
	}
	if r.Spec.P("hist", "") == "deadpeer" {
		runC09Dead(r)
		return
	}
	w := r.W
	c := r.ConfFromParams()
	s := open(r, c)
	if s == nil {
		return
	}
	kind := c.Proto
	if c.Mux {
		kind += "+mux"
	}
	if c.TLS == "auto" {
		kind += "+tls"
	}
	const B = 30 * time.Second
	nextID := uint32(2000)
	newID := func() uint32 { nextID++; return nextID }

	// primitive operations, each bounded
	dial := func(side string, id uint32) h.Outcome {
		return r.Do(fmt.Sprintf("Dial(%d)[%s]", id, side), B+10*time.Second, func() (any, error) {
			if side == "host" {
				return h.HostDialEcho(s.cmd, id, 16)
			}
			return s.cmd.Do("dial", fmt.Sprintf("%d:16", id))
		})
	}
	accept := func(side string, id uint32) h.Outcome {
		return r.Do(fmt.Sprintf("Accept(%d)[%s]", id, side), B+10*time.Second, func() (any, error) {
			if side == "host" {
				return nil, h.HostAcceptWait(r, s.cmd, id)
			}
			if c.Proto == "netrpc" {
				return s.cmd.Do("acceptwait", fmt.Sprint(id))
			}
			return s.cmd.Do("accept", fmt.Sprint(id))
		})
	}
	mustFail := func(step string, o h.Outcome) {
		ctx := fmt.Sprintf("broker=%s step=%s", kind, step)
		if o.Hung {
			r.Violate("hang", "op="+strings.SplitN(step, ":", 2)[0]+" "+ctx, fmt.Sprintf("unmatched call still outstanding after %v simulated\n%s", o.Took, h.StacksOf("host", "goplugin")+"\n--- plugin ---\n"+h.StacksOf("plugin", "goplugin")))
			return
		}
		if o.Took > B+o.Inject {
			r.Violate("slow", ctx, fmt.Sprintf("unmatched call took %v (documented about 5s)", o.Took))
		}
	}
	// causal facts of the history, used in signatures instead of its label
	facts := map[string]bool{}
	after := func() string {
		if facts["late-accept"] {
			return "late-accept"
		}
		var fs []string
		for _, f := range k.SortedKeys(facts) {
			fs = append(fs, f)
		}
		return strings.Join(fs, "+")
	}
	other := func(side string) string {
		if side == "host" {
			return "plugin"
		}
		return "host"
	}

	step := func(hist, side, epsS string) {
		w.Note("step", hist, side)
		facts[hist] = true
		switch hist {
		case "dial-noaccept":
			o := dial(side, newID())
			mustFail("dial-noaccept:"+side, o)
			if !o.Hung && o.Err == nil {
				r.Violate("phantom", fmt.Sprintf("broker=%s dial without accept succeeded", kind), fmt.Sprint(o.Val))
			}
		case "accept-nodial":
			if c.Proto == "grpc" && !c.Mux || c.Mux {
				// gRPC Accept does not wait for a peer; AcceptAndServe runs until
				// the broker closes. Only check that it does not wedge anything.
				if o := accept(side, newID()); o.Hung {
					mustFail("accept-nodial:"+side, o)
				}
				return
			}
			o := accept(side, newID())
			mustFail("accept-nodial:"+side, o)
		case "dup-dial2", "dup-dial3":
			n := 2
			if hist == "dup-dial3" {
				n = 3
			}
			id := newID()
			var wg sync.WaitGroup
			for i := 0; i < n; i++ {
				wg.Add(1)
				go k.Trap(func() {
					defer wg.Done()
					mustFail(hist+":"+side, dial(side, id))
				})
				time.Sleep(time.Duration(w.Range("dup/gap", 4)) * 300 * time.Millisecond)
			}
			wg.Wait()
		case "accept-at-expiry", "dial-then-late-accept":
			id := newID()
			eps := parseDur(epsS)
			wait := 5*time.Second + eps
			if hist == "dial-then-late-accept" {
				wait = 7 * time.Second
			}
			var wg sync.WaitGroup
			wg.Add(1)
			go k.Trap(func() {
				defer wg.Done()
				o := dial(side, id)
				if o.Hung {
					mustFail(hist+":"+side, o)
				}
			})
			inj0 := w.InjectedTotal()
			time.Sleep(wait)
			if wait+(w.InjectedTotal()-inj0) >= 5*time.Second-5*time.Millisecond {
				// the accept is issued when the dial has (or may have) already
				// timed out
				facts["late-accept"] = true
			}
			o := accept(other(side), id)
			if o.Hung {
				mustFail(hist+"-accept:"+other(side), o)
			}
			wg.Wait()
		case "dial-at-accept-expiry":
			// the accept is issued first and nobody dials until its own expiry instant
			id := newID()
			eps := parseDur(epsS)
			var wg sync.WaitGroup
			wg.Add(1)
			go k.Trap(func() {
				defer wg.Done()
				o := accept(other(side), id)
				if o.Hung {
					mustFail(hist+"-accept:"+other(side), o)
				}
			})
			time.Sleep(5*time.Second + eps)
			o := dial(side, id)
			if o.Hung {
				mustFail(hist+":"+side, o)
			}
			wg.Wait()
		case "reaccept-nodial":
			// an accept nobody dials, its listener closed again, the same id
			// accepted once more - still nobody dials (gRPC without multiplexing:
			// the second connection info meets the first one still parked)
			if c.Proto != "grpc" || c.Mux {
				mustFail("dial-noaccept:"+side, dial(side, newID()))
				break
			}
			id := newID()
			for round := 0; round < 3; round++ {
				if side == "host" {
					if stop, err := h.HostAcceptOwn(s.cmd, id); err == nil {
						time.Sleep(200 * time.Millisecond)
						r.Do("StopOwn", B, func() (any, error) { stop(); return nil, nil })
					}
				} else {
					s.cmd.Do("acceptown", fmt.Sprint(id))
					time.Sleep(200 * time.Millisecond)
					s.cmd.Do("stopown", fmt.Sprint(id))
				}
			}
		case "peer-aborts-stream":
			// net/rpc: the peer opens a broker stream and closes it after 0-3 of
			// the 4 ID bytes (it gave up, or died and was replaced, mid-negotiation)
			if c.Proto != "netrpc" {
				mustFail("dial-noaccept:"+side, dial(side, newID()))
				break
			}
			for _, n := range []int{w.Range("abort/n", 4), 0, 2} {
				id := newID()
				o := r.Do(fmt.Sprintf("AbortStream(%d,%d)[%s]", id, n, side), B, func() (any, error) {
					if side == "host" {
						return nil, plugins.AbortStream(s.cmd.(*plugins.RPCClient).Broker, id, n)
					}
					return s.cmd.Do("rawabort", fmt.Sprintf("%d:%d", id, n))
				})
				if o.Hung {
					r.Violate("hang", "op=abort-stream broker="+kind, "opening and closing a broker stream never returned")
				}
				time.Sleep(50 * time.Millisecond)
			}
		case "two-ids-unmatched":
			var wg sync.WaitGroup
			for i := 0; i < 2; i++ {
				id := newID()
				sd := side
				if i == 1 {
					sd = other(side)
				}
				wg.Add(1)
				go k.Trap(func() {
					defer wg.Done()
					mustFail("dial-noaccept:"+sd, dial(sd, id))
				})
			}
			wg.Wait()
		}
	}

	hist := r.Spec.P("hist", "dial-noaccept")
	if hist == "random" {
		n := 1 + w.Range("hist/n", 3)
		for i := 0; i < n; i++ {
			hh := c09Histories[w.Range("hist/kind", len(c09Histories))]
			side := []string{"host", "plugin"}[w.Range("hist/side", 2)]
			eps := []string{"0", "-2ms", "-1ns", "1ns", "2ms"}[w.Range("hist/eps", 5)]
			step(hh, side, eps)
		}
	} else {
		step(hist, r.Spec.P("side", "host"), r.Spec.P("eps", "0"))
	}
	// let every expiry timer fire
	time.Sleep(12 * time.Second)

	// the broker must still work: a fresh pair in each direction and a Dispense
	quiet := func() bool { return w.InjectedTotal() < 2*time.Second }
	for _, hostDials := range []bool{true, false} {
		p := &pair{id: newID(), hostDials: hostDials, size: 64}
		var wg sync.WaitGroup
		inj := w.InjectedTotal()
		if c.Mux {
			// multiplexed establishment
			if hostDials {
				s.cmd.Do("accept", fmt.Sprint(p.id))
			} else {
				h.HostAccept(r, s.cmd, p.id)
			}
			o := r.Do(fmt.Sprintf("FreshDial(%d)[%s]", p.id, p.dir()), 60*time.Second, func() (any, error) {
				if hostDials {
					return h.HostDialPing(s.cmd, p.id)
				}
				return s.cmd.Do("dial", fmt.Sprint(p.id))
			})
			p.err, p.hung = o.Err, o.Hung
			if o.Val != nil {
				p.answer, _ = o.Val.(string)
			}
		} else {
			runPair(s, p, &wg)
			wg.Wait()
		}
		ctx := fmt.Sprintf("broker=%s after=%s fresh-pair dir=%s", kind, after(), p.dir())
		if p.hung {
			r.Violate("wedged", ctx, "fresh accept/dial pair never completed after the history\n"+h.StacksOf("host", "goplugin")+"\n--- plugin ---\n"+h.StacksOf("plugin", "goplugin"))
			break
		} else if p.err != nil && w.InjectedTotal()-inj < 2*time.Second {
			r.Violate("wedged", ctx, fmt.Sprintf("fresh pair failed: %v", p.err))
		} else if p.err == nil && p.answer != fmt.Sprintf("id=%d", p.id) {
			r.Violate("misroute", ctx, fmt.Sprintf("fresh pair %d answered %q", p.id, p.answer))
		}
	}
	o := r.Do("Dispense(after)", 60*time.Second, func() (any, error) {
		raw, err := s.cp.Dispense(h.PluginName)
		if err != nil {
			return nil, err
		}
		return raw.(plugins.Cmd).Do("tag", "")
	})
	if o.Hung {
		r.Violate("wedged", fmt.Sprintf("broker=%s after=%s dispense", kind, after()), "Dispense after the history never returned\n"+h.StacksOf("host", "goplugin")+"\n--- plugin ---\n"+h.StacksOf("plugin", "goplugin"))
	} else if o.Err != nil && quiet() {
		r.Violate("wedged", fmt.Sprintf("broker=%s after=%s dispense", kind, after()), fmt.Sprintf("Dispense after the history failed: %v", o.Err))
	}
	s.kill()
	time.Sleep(10 * time.Second)
	if leaks := h.StacksOf("host", "goplugin.(*MuxBroker)"); leaks != "" {
		r.Violate("goroutine-leak", "broker="+kind+" MuxBroker goroutine left after Kill", leaks)
	}
	if leaks := h.StacksOf("host", "goplugin.(*GRPCBroker)"); leaks != "" {
		r.Violate("goroutine-leak", "broker="+kind+" GRPCBroker goroutine left after Kill", leaks)
	}
}
