package props

import (
	"bytes"
	"context"
	"encoding/json"
	"fmt"
	"google.golang.org/grpc"
	"strings"
	"sync"
	"time"

	plugin "simworld/goplugin"
	"simworld/h"
	"simworld/k"
	"simworld/plugins"
)

// C03: plugin failure at any point becomes a host error, never a crash or hang.

var c03Confs = []map[string]string{
	P("proto", "netrpc"),
	P("proto", "grpc"),
	P("proto", "grpc", "mux", "1"),
	P("proto", "netrpc", "tls", "auto"),
	P("proto", "grpc", "tls", "auto"),
	P("proto", "grpc", "mux", "1", "tls", "auto"),
}

// the host's client is one that REATTACHED to a plugin another client started
var c03ReattachConfs = []map[string]string{
	P("proto", "netrpc", "reattach", "1"),
	P("proto", "grpc", "reattach", "1"),
}

func confLabel(p map[string]string) string {
	s := p["proto"]
	if p["reattach"] == "1" {
		s += "+reattached"
	}
	if p["mux"] == "1" {
		s += "+mux"
	}
	if p["tls"] == "auto" {
		s += "+auto"
	}
	if p["dialblock"] == "1" {
		s += "+dialblock"
	}
	return s
}

func init() {
	Register(&Prop{ID: "C03",
		Meta: Meta{Stages: 2, Level: "fault_enumeration",
			Rule:       "stage 0: a fault-free profile run per protocol configuration (and for net/rpc and gRPC also with the host working through a client that REATTACHED to a plugin another client started) records every schedule point (statement boundary) and kernel event (listen, stdout/stderr pipe write, accept, every socket write, close) the PLUGIN process passes, and every schedule point a HOST goroutine passes, while the host runs start, connect, dispense, unary call, streaming call, brokered connection in both directions, stdio write, ping, a slow call, kill; stage 1: one run per recorded point (first 1 (quick) / 3 (thorough) occurrences) in which the plugin is killed (thorough: also exit(3) and panic) exactly there - for host points: killed exactly while the host goroutine is at that statement, which then stays there 50 ms; plus every FAILING SYSTEM CALL in turn (a profile with all fault kinds armed but none firing lists every decision point the session reaches - connect refused, connection reset on the k-th write of each socket, listen / pipe / temp file / fork failing - and stage 1 fails exactly one of them per run), plus blocking dials (grpc.WithBlock() among the host's dial options / on a brokered dial) to a plugin that died before the dial: an error, not a wait for ever; plus a group in which the plugin fails DURING the handshake (11 kinds of rejected or cut-off first line x 0/1/3 further stdout lines behind it x exit/stay/close-stdout x gap), plus seeded runs: crash at a drawn simulated instant with schedule noise, wake-up order noise, and in a quarter of them connection faults instead (resets in the middle of calls, refused and slow connects). Oracle: every host call returns within its bound (no hang), no host panic, calls issued after the death that need the plugin return an error, afterwards Exited() is true and the context given to GRPCPlugin.GRPCClient is cancelled",
			Exhaustive: "every schedule point and kernel event the plugin process passes in the profiled operation sequence, per protocol configuration (3 quick / 6 thorough), first occurrence (quick) or first three (thorough)"},
		Plan: func(tier string, seed uint64, stage int, prev []*h.Result) []*k.Spec {
			confs := append(append([]map[string]string{}, c03Confs[:3]...), c03ReattachConfs...)
			if tier == "thorough" {
				confs = append(append([]map[string]string{}, c03Confs...), c03ReattachConfs...)
			}

			if tier == "selftest" {
				if stage > 0 {
					return nil
				}
				return seeded("C03", seed, 6, func(i int, sd uint64) *k.Spec {
					s := &k.Spec{Seed: sd, Params: cp(c03Confs[i%3], "crashat", fmt.Sprint(k.H(sd, "at", 0)%3000)+"ms")}
					swarm(s, "")
					return s
				})
			}
			switch stage {
			case 0:
				var out []*k.Spec
				for _, c := range confs {
					s := sp("C03", "profile/"+confLabel(c), seed, cp(c))
					s.Profile = true
					out = append(out, s)
				}
				// every decision point of a failing system call the session reaches
				// (connect refused, connection reset on a write, listen / pipe / temp
				// file / fork failing), to be failed one at a time in stage 1
				for _, c := range confs[:3] {
					s := sp("C03", "sysfail-profile/"+confLabel(c), seed, cp(c, "sysfail", "profile"))
					s.Explicit = true
					s.Faults = c03SysFaults
					out = append(out, s)
				}
				return out
			case 1:
				var out []*k.Spec
				for _, pr := range prev {
					if pr.Spec == nil || pr.Spec.P("sysfail", "") != "profile" {
						continue
					}
					var pts map[string]int
					json.Unmarshal([]byte(pr.Info["faultpoints"]), &pts)
					capIdx := 10
					if tier == "thorough" {
						capIdx = 120
					}
					for _, key := range k.SortedKeys(pts) {
						for i := 0; i < pts[key] && i < capIdx; i++ {
							s := sp("C03", fmt.Sprintf("sysfail/%s/%s#%d", pr.Info["conf"], key, i), seed, cp(pr.Spec.Params, "sysfail", "at"))
							s.Explicit = true
							s.Faults = c03SysFaults
							s.Overrides = map[string]int64{fmt.Sprintf("%s#%d", key, i): 1}
							out = append(out, s)
						}
					}
				}
				maxOcc := 1
				acts := []string{"kill"}
				if tier == "thorough" {
					maxOcc = 3
					acts = []string{"kill", "exit:3", "panic"}
				}
				for _, pr := range prev {
					if pr.Spec == nil || !pr.Spec.Profile {
						continue
					}
					for _, id := range pr.PassSeq {
						parts := strings.SplitN(id, "|", 3)
						if len(parts) != 3 || (!strings.HasPrefix(parts[0], "plugin") && parts[0] != "host") {
							continue
						}
						proc, on, key := parts[0], parts[1], parts[2]
						cnt := pr.SitePass[proc+" "+key]
						if on == "event" {
							cnt = pr.EvPass[proc+" "+key]
						}
						if proc == "host" {
							// the plugin dies exactly while a HOST goroutine is at this
							// statement of go-plugin (and stays there for 50 ms)
							if on != "site" {
								continue
							}
							for occ := 1; occ <= maxOcc && occ <= cnt; occ++ {
								s := sp("C03", fmt.Sprintf("crash-at-host/%s/%s#%d", pr.Info["conf"], key, occ), seed, cp(pr.Spec.Params))
								s.Triggers = []*k.Trigger{{On: on, Proc: proc, Key: key, Occ: occ, Act: "killprocsleep:plugin:50000000"}}
								out = append(out, s)
							}
							continue
						}
						for occ := 1; occ <= maxOcc && occ <= cnt; occ++ {
							for _, act := range acts {
								if act == "panic" && on == "event" {
									continue
								}
								s := sp("C03", fmt.Sprintf("crash/%s/%s/%s#%d/%s", pr.Info["conf"], on, key, occ, act), seed, cp(pr.Spec.Params))
								s.Triggers = []*k.Trigger{{On: on, Proc: proc, Key: key, Occ: occ, Act: act}}
								out = append(out, s)
							}
						}
					}
				}
				// the plugin fails during the handshake: a rejected first line, further
				// output behind it, then an exit / a kill / nothing
				for li := range c03BadLines {
					for _, more := range []string{"0", "1", "3"} {
						for _, end := range []string{"exit:3", "exit:0", "stay", "closeout"} {
							for _, gap := range []string{"0", "50ms"} {
								if more == "0" && gap != "0" {
									continue
								}
								if tier != "thorough" && (end == "exit:0" || (gap != "0" && li%2 == 1)) {
									continue
								}
								out = append(out, sp("C03", fmt.Sprintf("hsfail/%s/more%s/%s/gap%s", c03BadLines[li].name, more, end, gap), seed,
									P("proto", "grpc", "mux", "1", "hsfail", fmt.Sprint(li), "more", more, "end", end, "gap", gap)))
							}
						}
					}
				}
				// blocking dials to a plugin that is already dead
				for _, mx := range []string{"0", "1"} {
					for _, bd := range []string{"client", "broker"} {
						if mx == "1" && bd == "broker" {
							// (a multiplexed brokered dial reports every failure of its knock as
							// an error gRPC takes for temporary: a blocking dial then waits for
							// as long as the host lets it - what the host asked for)
							continue
						}
						out = append(out, sp("C03", fmt.Sprintf("blocking-dial/mux%s/%s", mx, bd), seed, P("proto", "grpc", "mux", mx, "blockdial", bd)))
					}
				}
				// seeded: crash at a drawn instant with schedule noise
				n := 300
				if tier == "thorough" {
					n = 100000
				}
				out = append(out, seeded("C03", seed, n, func(i int, sd uint64) *k.Spec {
					c := confs[int(k.H(sd, "conf", 0)%uint64(len(confs)))]
					s := &k.Spec{Seed: sd, Params: cp(c, "crashat", fmt.Sprint(k.H(sd, "at", 0)%3500)+"ms", "crashkind", []string{"kill", "kill", "exit", "stop-then-kill"}[k.H(sd, "kind", 0)%4])}
					swarm(s, "")
					if s.DelayClass == "big" {
						s.DelayClass = "mid"
					}
					switch k.H(sd, "faults", 0) % 4 {
					case 0:
						s.Faults = "conn.latency,conn.chunk,pipe.chunk"
					case 1:
						// the connection to the plugin fails rather than the process:
						// resets in the middle of calls, refused and slow connects
						s.Faults = "conn.rst,dial.refused,dial.slow,conn.chunk"
					}
					return s
				})...)
				return out
			}
			return nil
		},
		Run: runC03,
	})
}

type syncBuf struct {
	mu sync.Mutex
	b  bytes.Buffer
}

func (s *syncBuf) Write(p []byte) (int, error) {
	s.mu.Lock()
	defer s.mu.Unlock()
	return s.b.Write(p)
}
func (s *syncBuf) Bytes() []byte {
	s.mu.Lock()
	defer s.mu.Unlock()
	return append([]byte(nil), s.b.Bytes()...)
}

const c03SysFaults = "dial.refused,conn.rst,listen.fail,pipe.emfile,fs.enospc,spawn.fail"

var c03SysFaultKeys = []string{"dialrefused/", "rst/", "listenfail/", "emfile/", "enospc/", "spawnfail"}

// first lines Client.Start rejects
var c03BadLines = []struct{ name, line string }{
	{"garbage", "this is not a handshake\n"},
	{"core-version", "9|1|unix|{ADDR}|grpc|\n"},
	{"app-version", "1|77|unix|{ADDR}|grpc|\n"},
	{"network", "1|1|carrier|{ADDR}|grpc|\n"},
	{"protocol", "1|1|unix|{ADDR}|pigeon|\n"},
	{"cert", "1|1|unix|{ADDR}|grpc|!!not-base64!!\n"},
	{"no-mux", "1|1|unix|{ADDR}|grpc||false\n"},
	{"few-fields", "1|1|unix\n"},
	// the plugin dies in the middle of writing its line (what is there ends
	// without a newline), or announces a TCP address that does not resolve
	{"cut-tcp-host", "1|1|tcp|127.0.0.1"},
	{"cut-tcp-port", "1|1|tcp|127.0.0.1:"},
	{"tcp-no-port", "1|1|tcp|127.0.0.1|grpc|\n"},
	// (a cut that leaves four well-formed fields - "1|1|unix|/tmp/plu" - is not
	// here: the host cannot tell it from the complete line of an old plugin
	// and accepts it; the first connect then fails)
}

// runC03HS: the plugin fails during the handshake.
func runC03HS(r *h.Run) {
	w := r.W
	c := r.ConfFromParams()
	bl := c03BadLines[r.Spec.PI("hsfail", 0)]
	more, end, gap := r.Spec.PI("more", 0), r.Spec.P("end", "stay"), parseDur(r.Spec.P("gap", "0"))
	ctx := fmt.Sprintf("handshake=%s more-output=%d end=%s", bl.name, more, strings.SplitN(end, ":", 2)[0])
	text := bl.line
	var steps []h.ScriptStep
	if gap == 0 {
		for i := 0; i < more; i++ {
			text += fmt.Sprintf("further output line %d\n", i)
		}
		steps = append(steps, h.Out(text))
	} else {
		steps = append(steps, h.Out(text))
		for i := 0; i < more; i++ {
			steps = append(steps, h.Out(fmt.Sprintf("further output line %d\n", i)).After(gap))
		}
	}
	steps = append(steps, h.Err("tool: giving up\n"))
	c.Path = "/bin/badhs"
	r.InstallScript(c.Path, &h.Script{Listen: "unix", Steps: steps, End: end})
	cl := r.NewClient(c)
	o := r.Do("Start", 90*time.Second, func() (any, error) { return cl.Start() })
	if o.Hung {
		r.Violate("hang", "op=Start "+ctx, fmt.Sprintf("Start still outstanding after %v\n%s", o.Took, r.HostStacks("goplugin")))
		return
	}
	if o.Err == nil {
		r.Violate("no-error", "op=Start "+ctx, fmt.Sprintf("Start returned no error (address %v) although the plugin failed during the handshake", o.Val))
	}
	// the host keeps using the client as it would any other
	for _, name := range []string{"Client", "Start2"} {
		name := name
		o := r.Do(name, 90*time.Second, func() (any, error) {
			if name == "Client" {
				return cl.Client()
			}
			return cl.Start()
		})
		if o.Hung {
			r.Violate("hang", "op="+name+" "+ctx, fmt.Sprintf("%s still outstanding after %v\n%s", name, o.Took, r.HostStacks("goplugin")))
			return
		}
		if o.Err == nil {
			r.Violate("success-after-death", "op="+name+" "+ctx, name+" succeeded after the handshake had failed")
		}
	}
	ko := r.Do("Kill", 150*time.Second, func() (any, error) { cl.Kill(); return nil, nil })
	if ko.Hung {
		r.Violate("hang", "op=Kill "+ctx, fmt.Sprintf("Kill still outstanding after %v\n%s", ko.Took, r.HostStacks("goplugin")))
		return
	}
	time.Sleep(5 * time.Second)
	if p := w.ProcByName("plugin"); p != nil {
		if p.Alive() {
			r.Violate("process-left-behind", ctx, "plugin alive after a failed Start and Kill")
		} else if p.State() == k.Zombie {
			r.Violate("not-reaped", ctx, "plugin process exited but was never waited for (zombie) after a failed Start and Kill")
		}
		if !cl.Exited() {
			r.Violate("not-exited", ctx, "plugin process is dead and Kill returned, but Client.Exited() is false")
		}
	}
	w.Probe("hsfail.checked")
}

// runC03BlockingDial: the host asked gRPC for blocking dials; the plugin is
// dead by the time of the dial. (A plugin that dies AFTER it accepted the
// connection and before the HTTP/2 preface is another matter: gRPC's first
// error is then a temporary one, its channel stays in TRANSIENT_FAILURE and a
// blocking dial never returns - gRPC semantics the host asked for, DESIGN 0.8.)
func runC03BlockingDial(r *h.Run) {
	w := r.W
	c := r.ConfFromParams()
	what := r.Spec.P("blockdial", "client")
	ctx := fmt.Sprintf("conf=%s blocking-dial=%s", c.String(), what)
	if what == "client" {
		c.TweakClient = func(cc *plugin.ClientConfig) { cc.GRPCDialOptions = append(cc.GRPCDialOptions, grpc.WithBlock()) }
	}
	r.InstallPlugin(&c)
	cl := r.NewClient(c)
	if o := r.DoNoHang("Start", 90*time.Second, ctx, func() (any, error) { return cl.Start() }); o.Err != nil || o.Hung {
		r.Violate("setup", "start "+ctx, fmt.Sprint(o.Err))
		return
	}
	plug := w.ProcByName("plugin")
	if what == "client" {
		plug.Crash(137, "dies before the host connects")
		w.CountFault("proc.crash")
		time.Sleep(100 * time.Millisecond)
		o := r.Do("Client", 60*time.Second, func() (any, error) { return cl.Client() })
		if o.Hung {
			r.Violate("hang", "op=Client "+ctx, "Client() with a blocking dial never returned although the plugin is dead\n"+r.HostStacks("goplugin"))
		} else if o.Err == nil {
			if _, err := o.Val.(plugin.ClientProtocol).Dispense(h.PluginName); err == nil {
				r.Violate("no-error", ctx, "connected to and dispensed from a dead plugin")
			}
		}
	} else {
		o := r.DoNoHang("Client+Dispense", 90*time.Second, ctx, func() (any, error) {
			cp, err := cl.Client()
			if err != nil {
				return nil, err
			}
			return cp.Dispense(h.PluginName)
		})
		if o.Err != nil || o.Hung {
			r.Violate("setup", "connect "+ctx, fmt.Sprint(o.Err))
			return
		}
		gc := o.Val.(*plugins.GRPCClient)
		gc.Do("accept", "4400")
		time.Sleep(200 * time.Millisecond)
		plug.Crash(137, "dies after announcing a brokered listener")
		w.CountFault("proc.crash")
		time.Sleep(100 * time.Millisecond)
		o2 := r.Do("BrokerDial(WithBlock)", 60*time.Second, func() (any, error) { return gc.Broker.DialWithOptions(4400, grpc.WithBlock()) })
		if o2.Hung {
			r.Violate("hang", "op=BrokerDial "+ctx, "a blocking brokered dial never returned although the plugin is dead\n"+r.HostStacks("goplugin"))
		} else if o2.Err == nil {
			r.Violate("no-error", ctx, "a brokered dial to a dead plugin succeeded")
		}
	}
	ko := r.Do("Kill", 150*time.Second, func() (any, error) { cl.Kill(); return nil, nil })
	if ko.Hung {
		r.Violate("hang", "op=Kill "+ctx, r.HostStacks("goplugin"))
	}
	if !cl.Exited() {
		r.Violate("not-exited", ctx, "Exited() is false after the plugin died and Kill returned")
	}
}

func runC03(r *h.Run) {
	if r.Spec.P("hsfail", "") != "" {
		runC03HS(r)
		return
	}
	if r.Spec.P("blockdial", "") != "" {
		runC03BlockingDial(r)
		return
	}
	w := r.W
	c := r.ConfFromParams()
	r.Info["conf"] = c.String()
	so, se := &syncBuf{}, &syncBuf{}
	c.SyncStdout, c.SyncStderr = so, se
	r.InstallPlugin(&c)
	cl := r.NewClient(c)
	reattached := r.Spec.P("reattach", "") == "1"
	if reattached {
		// client A starts the plugin and stays idle; the host works through B
		a := cl
		if o := r.Do("A.Start", 90*time.Second, func() (any, error) { return a.Start() }); o.Err != nil || o.Hung {
			if len(r.Spec.Triggers) == 0 && r.Spec.P("crashat", "") == "" {
				r.Violate("setup", "A.Start conf="+c.String(), fmt.Sprint(o.Err))
			}
			return
		}
		rc := a.ReattachConfig()
		if rc == nil {
			return
		}
		cl = reattachClient(r, c.Proto, rc, "hostB")
		r.Info["conf"] = c.String() + "+reattached"
	}
	profile := r.Spec.Profile
	armed := len(r.Spec.Triggers) > 0 || r.Spec.P("crashat", "") != "" || r.Spec.P("sysfail", "") == "at"
	phase := "none"
	if len(r.Spec.Triggers) > 0 {
		t := r.Spec.Triggers[0]
		phase = t.On + ":" + strings.SplitN(t.Key, "#", 2)[0]
		if t.On == "event" {
			phase = "event:" + strings.SplitN(t.Key, ":", 2)[0]
		}
	} else if r.Spec.P("sysfail", "") == "at" {
		phase = "syscall-fails"
		for kk := range r.Spec.Overrides {
			phase += ":" + strings.SplitN(kk, "/", 2)[0]
		}
	} else if armed {
		phase = "timed"
	}
	ctx := fmt.Sprintf("conf=%s crash=%s", r.Info["conf"], phase)
	plug := func() *k.Proc { return w.ProcByName("plugin") }
	dead := func() bool { p := plug(); return p != nil && !p.Alive() }

	if at := r.Spec.P("crashat", ""); at != "" {
		d := parseDur(at)
		kind := r.Spec.P("crashkind", "kill")
		go func() {
			time.Sleep(d)
			p := plug()
			if p == nil {
				return
			}
			w.CountFault("proc.crash@time")
			switch kind {
			case "exit":
				p.Crash(3, "exit at drawn instant")
			case "stop-then-kill":
				p.Stop()
				time.Sleep(1500 * time.Millisecond)
				p.Crash(137, "kill after stop")
			default:
				p.Crash(137, "kill at drawn instant")
			}
		}()
	}

	// op runs one host operation under a bound and applies the oracle.
	op := func(name string, bound time.Duration, needsPlugin bool, f func() (any, error)) (any, bool) {
		deadBefore := dead()
		o := r.Do(name, bound, f)
		if o.Hung {
			r.Violate("hang", fmt.Sprintf("op=%s %s", name, ctx), fmt.Sprintf("%s still outstanding after %v simulated; plugin dead=%v\n%s", name, o.Took, dead(), r.HostStacks("goplugin")))
			return nil, false
		}
		if o.Err == nil && deadBefore && needsPlugin {
			r.Violate("success-after-death", fmt.Sprintf("op=%s %s", name, ctx), fmt.Sprintf("%s succeeded although the plugin process had already died", name))
		}
		if o.Err != nil && !armed {
			r.Violate("setup", fmt.Sprintf("op=%s conf=%s", name, c.String()), fmt.Sprintf("fault-free run: %s failed: %v\n%s", name, o.Err, r.HLog.String()))
		}
		return o.Val, o.Err == nil
	}

	var cproto plugin.ClientProtocol
	var cmd plugins.Cmd
	_, started := op("Start", 90*time.Second, true, func() (any, error) { return cl.Start() })
	// (a gRPC connection is dialled lazily: Client() itself does not need the plugin)
	if v, ok := op("Client", 60*time.Second, c.Proto == "netrpc", func() (any, error) { return cl.Client() }); ok {
		cproto = v.(plugin.ClientProtocol)
	}
	if cproto != nil {
		if v, ok := op("Dispense", 60*time.Second, c.Proto == "netrpc", func() (any, error) { return cproto.Dispense(h.PluginName) }); ok {
			cmd = v.(plugins.Cmd)
		}
	}
	if cmd != nil {
		op("Call", 60*time.Second, true, func() (any, error) { return cmd.Do("tag", "") })
		if gc, ok := cmd.(*plugins.GRPCClient); ok {
			op("Stream", 60*time.Second, true, func() (any, error) {
				cctx, cancel := context.WithTimeout(context.Background(), 40*time.Second)
				defer cancel()
				return nil, gc.StreamN(cctx, 3)
			})
		}
		// brokered connection host -> plugin
		op("AskAccept", 60*time.Second, true, func() (any, error) { return cmd.Do("accept", "500") })
		op("BrokerDial", 60*time.Second, true, func() (any, error) { return h.HostDialEcho(cmd, 500, 200) })
		// brokered connection plugin -> host
		h.HostAccept(r, cmd, 501)
		op("AskDial", 60*time.Second, true, func() (any, error) { return cmd.Do("dial", "501") })
		// a broker accept on the host that nobody dials: must come back (listener or error)
		op("BrokerAccept", 60*time.Second, false, func() (any, error) {
			switch c := cmd.(type) {
			case *plugins.RPCClient:
				conn, err := c.Broker.Accept(502)
				if err == nil {
					conn.Close()
				}
				return nil, nil // a timeout is the expected outcome
			case *plugins.GRPCClient:
				ln, err := c.Broker.Accept(502)
				if err == nil {
					ln.Close()
				}
				return nil, nil
			}
			return nil, nil
		})
		// stdio
		op("Stdio", 60*time.Second, true, func() (any, error) { return cmd.Do("stdout", "68656c6c6f0a") })
		op("Ping", 60*time.Second, true, func() (any, error) { return nil, cproto.Ping() })
		// a slow call with a concurrent ping and dispense: operations in flight
		var wg sync.WaitGroup
		wg.Add(2)
		go k.Trap(func() {
			defer wg.Done()
			op("SlowCall", 60*time.Second, true, func() (any, error) { return cmd.Do("sleep", "1000000000") })
		})
		go k.Trap(func() {
			defer wg.Done()
			time.Sleep(300 * time.Millisecond)
			op("Ping2", 60*time.Second, true, func() (any, error) { return nil, cproto.Ping() })
		})
		wg.Wait()
		op("Dispense2", 60*time.Second, c.Proto == "netrpc", func() (any, error) { return cproto.Dispense(h.PluginName) })
	}
	if profile && !reattached {
		if !bytes.Contains(so.Bytes(), []byte("hello")) {
			time.Sleep(time.Second)
			if !bytes.Contains(so.Bytes(), []byte("hello")) {
				r.Violate("setup", "stdio not delivered conf="+c.String(), string(so.Bytes()))
			}
		}
	}
	if r.Spec.P("sysfail", "") == "profile" {
		pts := map[string]int{}
		for key, n := range w.DrawCounts() {
			for _, pre := range c03SysFaultKeys {
				if strings.HasPrefix(key, pre) {
					pts[key] = n
				}
			}
		}
		js, _ := json.Marshal(pts)
		r.Info["faultpoints"] = string(js)
	}
	// Kill must return, whatever happened
	ko := r.Do("Kill", 150*time.Second, func() (any, error) { cl.Kill(); return nil, nil })
	if ko.Hung {
		r.Violate("hang", fmt.Sprintf("op=Kill %s", ctx), fmt.Sprintf("Kill still outstanding after %v\n%s", ko.Took, r.HostStacks("goplugin")))
		return
	}
	if p := plug(); p != nil {
		time.Sleep(5 * time.Second)
		if p.Alive() {
			r.Violate("process-left-behind", ctx, "plugin alive after Kill")
		}
		if !cl.Exited() && (started || !reattached) {
			// (a client whose reattach found nothing never had a plugin to report on)
			r.Violate("not-exited", ctx, "plugin process is dead and Kill returned, but Client.Exited() is false")
		}
		if c.Sh != nil && c.Proto == "grpc" {
			// the context handed to GRPCPlugin.GRPCClient
			hostSh := hostShared(cl)
			_ = hostSh
		}
		if gc, ok := cmd.(*plugins.GRPCClient); ok && gc.Ctx != nil {
			select {
			case <-gc.Ctx.Done():
			default:
				r.Violate("ctx-not-cancelled", ctx, "context passed to GRPCPlugin.GRPCClient is still live after the plugin died")
			}
		}
	}
	if armed && len(r.Spec.Triggers) > 0 && w.FaultCount("trigger."+strings.SplitN(r.Spec.Triggers[0].Act, ":", 2)[0]) == 0 {
		w.Probe("crashpoint.not-reached")
	} else if armed {
		w.Probe("crashpoint.reached")
	}
}

func hostShared(cl *plugin.Client) any { return nil }
