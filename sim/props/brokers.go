package props

import (
	"fmt"
	"github.com/hashicorp/yamux"
	"io"
	"net"
	"simworld/shim/simnet"
	"strconv"
	"strings"
	"sync"
	"time"

	plugin "simworld/goplugin"
	"simworld/h"
	"simworld/k"
	"simworld/plugins"
)

// session is a started client with one dispensed command object.
type session struct {
	r    *h.Run
	c    h.Conf
	cl   *plugin.Client
	cp   plugin.ClientProtocol
	cmd  plugins.Cmd
	name string
}

// open starts a client for conf, connects and dispenses the command plugin.
// Any failure here in a fault-free setup is a violation of class "setup".
func open(r *h.Run, c h.Conf) *session {
	r.InstallPlugin(&c)
	s := &session{r: r, c: c, name: c.String()}
	s.cl = r.NewClient(c)
	o := r.DoNoHang("Start", 120*time.Second, s.name, func() (any, error) { return s.cl.Start() })
	if o.Hung {
		return nil
	}
	if o.Err != nil {
		if r.W.InjectedTotal() >= 2*time.Second {
			// a stall of seconds injected into the set-up itself (the broker's
			// 5 s windows apply to a Dispense too): nothing to judge in this run
			r.W.Probe("setup.abandoned-after-injected-stall")
			return nil
		}
		r.Violate("setup", "start failed "+s.name, o.Err.Error()+"\n"+r.HLog.String())
		return nil
	}
	o = r.DoNoHang("Client", 60*time.Second, s.name, func() (any, error) { return s.cl.Client() })
	if o.Hung {
		return nil
	}
	if o.Err != nil {
		if r.W.InjectedTotal() >= 2*time.Second {
			// a stall of seconds injected into the set-up itself (the broker's
			// 5 s windows apply to a Dispense too): nothing to judge in this run
			r.W.Probe("setup.abandoned-after-injected-stall")
			return nil
		}
		r.Violate("setup", "client failed "+s.name, o.Err.Error()+"\n"+r.HLog.String())
		return nil
	}
	s.cp = o.Val.(plugin.ClientProtocol)
	o = r.DoNoHang("Dispense", 60*time.Second, s.name, func() (any, error) { return s.cp.Dispense(h.PluginName) })
	if o.Hung {
		return nil
	}
	if o.Err != nil {
		if r.W.InjectedTotal() >= 2*time.Second {
			// a stall of seconds injected into the set-up itself (the broker's
			// 5 s windows apply to a Dispense too): nothing to judge in this run
			r.W.Probe("setup.abandoned-after-injected-stall")
			return nil
		}
		r.Violate("setup", "dispense failed "+s.name, o.Err.Error()+"\n"+r.HLog.String())
		return nil
	}
	s.cmd = o.Val.(plugins.Cmd)
	return s
}

func (s *session) kill() {
	s.r.DoNoHang("Kill", 120*time.Second, s.name, func() (any, error) { s.cl.Kill(); return nil, nil })
}

// pair is one brokered establishment.
type pair struct {
	id        uint32
	hostDials bool          // true: plugin accepts, host dials
	tAccept   time.Duration // offset at which the accept is issued
	tDial     time.Duration
	size      int
	late      int    // >0: the dialler uses the connection again 6s later with this many bytes
	lateMark  string // " after=late-establishment": this or an earlier establishment took (with injected stalls) about as long as the broker's own 5 s timers

	issued   time.Duration
	inj0     time.Duration
	done     time.Duration
	injected time.Duration
	answer   string
	err      error
	hung     bool
}

func (p *pair) gap() time.Duration {
	g := p.tAccept - p.tDial
	if g < 0 {
		g = -g
	}
	return g
}

func (p *pair) dir() string {
	if p.hostDials {
		return "host->plugin"
	}
	return "plugin->host"
}

func (p *pair) order() string {
	if p.tAccept <= p.tDial {
		return "accept-first"
	}
	return "dial-first"
}

// runPair issues the accept and the dial of p at their offsets (relative to
// now) and waits for the dial's outcome.
func runPair(s *session, p *pair, wg *sync.WaitGroup) {
	r := s.r
	t0 := r.W.Now()
	p.issued = t0
	p.inj0 = r.W.InjectedTotal()
	wg.Add(1)
	go k.Trap(func() {
		time.Sleep(p.tAccept)
		if p.hostDials {
			// ask the plugin to accept in the background
			if _, err := s.cmd.Do("accept", fmt.Sprint(p.id)); err != nil {
				r.W.Note("ret", fmt.Sprintf("cmd.accept(%d)", p.id), h.ErrStr(err))
			}
		} else {
			h.HostAccept(r, s.cmd, p.id)
		}
	})
	go k.Trap(func() {
		defer wg.Done()
		time.Sleep(p.tDial)
		o := r.Do(fmt.Sprintf("Dial(%d)[%s]", p.id, p.dir()), 90*time.Second, func() (any, error) {
			if p.late > 0 {
				// keep the connection, use it again more than 5s later with a large payload
				if p.hostDials {
					return h.HostDialEchoLate(s.cmd, p.id, p.size, 6*time.Second, p.late)
				}
				return s.cmd.Do("dial", fmt.Sprintf("%d:%d:%d:%d", p.id, p.size, int64(6*time.Second), p.late))
			}
			if p.hostDials {
				return h.HostDialEcho(s.cmd, p.id, p.size)
			}
			return s.cmd.Do("dial", fmt.Sprintf("%d:%d", p.id, p.size))
		})
		p.done = r.W.Now()
		p.injected = r.W.InjectedTotal() - p.inj0
		p.err, p.hung = o.Err, o.Hung
		if o.Val != nil {
			p.answer, _ = o.Val.(string)
		}
	})
}

// judgePair applies the rendezvous reference model to one pair.
func judgePair(r *h.Run, kind string, p *pair, coreWindow time.Duration) {
	ctx := fmt.Sprintf("broker=%s%s dir=%s order=%s", kind, p.lateMark, p.dir(), p.order())
	if p.hung {
		r.Violate("hang", "op=Dial "+ctx, fmt.Sprintf("dial of id %d never returned", p.id))
		return
	}
	want := fmt.Sprintf("id=%d", p.id)
	if p.err == nil && p.answer != want {
		r.Violate("misroute", ctx, fmt.Sprintf("connection dialled for id %d was answered by %q", p.id, p.answer))
		return
	}
	if p.err != nil && strings.Contains(p.err.Error(), "late use of the dialled connection") {
		r.Violate("late-use-failed", ctx, fmt.Sprintf("the connection for id %d was established, but using it again 6s later with %d bytes failed: %v", p.id, p.late, p.err))
		return
	}
	if p.err != nil && strings.Contains(p.err.Error(), "payload mismatch") {
		r.Violate("corrupt", ctx, p.err.Error())
		return
	}
	if p.gap()+p.injected <= coreWindow {
		r.W.Probe("pair.must-succeed")
		if p.err != nil {
			r.Violate("lost-pair", ctx, fmt.Sprintf("accept and dial of id %d were issued %v apart (injected delay %v), inside the pending window, but the dial failed: %v\n%s", p.id, p.gap(), p.injected, p.err, r.HLog.String()))
		}
	} else {
		r.W.Probe("pair.either-outcome")
	}
	if p.err == nil {
		r.W.Probe("pair.ok." + p.order())
	} else {
		r.W.Probe("pair.failed")
	}
}

// ---- C06 ------------------------------------------------------------------------------

func init() {
	Register(&Prop{ID: "C06",
		Meta: Meta{Stages: 2, Level: "exploration",
			Rule: "real net/rpc Client+Serve in two simulated processes; k in [1,8] brokered IDs per run with drawn direction, accept/dial order, gap 0-4.5s and payload size, concurrent Dispense traffic (up to 6 dispenses of several plugin names whose Server() takes 0-1.2 s and, for two of them, fails); seeded schedule noise (yields/sleeps at woven points, focus on mux_broker.go), socket latency and short reads; oracle = rendezvous reference model (answer through Dial(n) is id=n with the payload checksum; pairs issued <=2s apart incl. injected delay must both succeed; every Dispense reaches a distinct fresh server object) Plus BURSTS (k=4/9/24/70 accepts outstanding and all dialled at the same instant in either direction, k Dispenses at once: all succeed, all reach their own peer / a distinct server object). Plus the rendezvous with ONE CONTEXT SWITCH AT EVERY STATEMENT: stage 0 profiles the go-plugin statements either process passes while one pair is established (direction x order), stage 1 runs one case per (process, statement, occurrence) in which the peer issues its half of the pair exactly while that goroutine is at that statement (or, if already issued, the goroutine stays there 2 ms); the dial must succeed and be answered by id=n, the control connection and a fresh pair must still work."},
		Plan: func(tier string, seed uint64, stage int, prev []*h.Result) []*k.Spec {
			if stage > 0 {
				return pairRaceSpecs("C06", P(), tier, seed, stage, prev)
			}
			n := 1500
			if tier == "thorough" {
				n = 400000
			}
			if tier == "selftest" {
				n = 6
			}
			out := pairRaceSpecs("C06", P(), tier, seed, 0, nil)
			for _, ru := range []string{"haa", "had", "hda", "hdd", "paa", "pad", "pda", "pdd"} {
				out = append(out, sp("C06", "fixed-reuse/"+ru, seed, P("fixed", "1", "dir", "h", "ord", "a", "gap", "0", "reuse", ru)))
			}
			for _, tl := range []string{"none", "auto"} {
				for _, st := range []string{"0", "3s", "20s"} {
					out = append(out, sp("C06", fmt.Sprintf("long-lived/%s/%s", tl, st), seed, P("longlived", "1", "tls", tl, "starttimeout", st)))
				}
			}
			for _, cm := range []string{"dial-first", "accept-first"} {
				nv := 4
				if tier == "thorough" {
					nv = 100
				}
				for v := 0; v < nv; v++ {
					s := sp("C06", fmt.Sprintf("component/%s/%d", cm, v), seed+uint64(v)*7919, P("component", cm))
					if v > 0 {
						s.HotPermille, s.DelayClass = 60, "tiny"
						s.Focus = "mux_broker.go"
					}
					out = append(out, s)
				}
			}
			for _, rt := range []string{"hd", "pd", "ha", "pa"} {
				out = append(out, sp("C06", "fixed-retry/"+rt, seed, P("fixed", "1", "dir", "h", "ord", "a", "gap", "0", "retry", rt)))
			}
			// bursts: many establishments issued at the same instant
			for _, mode := range []string{"hdial", "pdial", "dispense"} {
				for _, kk := range []string{"4", "9", "24", "70"} {
					nv := 3
					if tier == "thorough" {
						nv = 60
					}
					for v := 0; v < nv; v++ {
						s := sp("C06", fmt.Sprintf("burst/%s/%s/%d", mode, kk, v), seed+uint64(v)*7919, P("burst", mode, "k", kk))
						if v > 0 {
							s.HotPermille, s.DelayClass = 60, []string{"tiny", "small"}[v%2]
							s.Focus = "mux_broker.go"
							s.Wake = []int{0, 500, 1000}[v%3]
						}
						out = append(out, s)
					}
				}
			}
			// fixed corner cases first
			for _, dir := range []string{"h", "p"} {
				for _, ord := range []string{"a", "d"} {
					for _, gap := range []string{"0", "1900ms", "4400ms"} {
						out = append(out, sp("C06", fmt.Sprintf("fixed/%s/%s/%s", dir, ord, gap), seed, P("fixed", "1", "dir", dir, "ord", ord, "gap", gap)))
					}
				}
			}
			out = append(out, seeded("C06", seed, n, func(i int, sd uint64) *k.Spec {
				s := &k.Spec{Seed: sd, Params: P()}
				swarm(s, "mux_broker.go")
				if k.H(sd, "faults", 0)%2 == 0 {
					s.Faults = "conn.latency,conn.chunk"
				}
				return s
			})...)
			return out
		},
		Run: func(r *h.Run) {
			if r.Spec.P("pairrace", "") != "" {
				runPairRace(r, h.Conf{Proto: "netrpc"}, "mux")
				return
			}
			if r.Spec.P("burst", "") != "" {
				runBrokerBurst(r, h.Conf{Proto: "netrpc"}, "mux")
				return
			}
			if r.Spec.P("component", "") != "" {
				runC06Component(r)
				return
			}
			if r.Spec.P("longlived", "") != "" {
				runC06LongLived(r)
				return
			}
			runBrokerPairs(r, h.Conf{Proto: "netrpc"}, "mux")
		},
	})
}

// runC06Component: two real MuxBrokers on a yamux session pair the harness
// builds itself over a simulated Unix socket, one end with a short
// StreamCloseTimeout - a peer that RESETS a stream it gave up on (go-plugin's
// own sessions use yamux's default of five minutes, so through Client/Serve a
// half-closed stream is never reset inside the pending window). History: the
// impatient peer dials, writes the ID and gives up; the accept that picks the
// stream up fails writing the ack; then the same ID is established again with
// accept and dial straddling the instant at which the failed attempt's expiry
// timer fires.
func runC06Component(r *h.Run) {
	w := r.W
	mode := r.Spec.P("component", "dial-first")
	ctx := "broker=mux component retry-after-failed-ack order=" + mode
	ln, err := simnet.Listen("unix", "/tmp/component.sock")
	if err != nil {
		r.Violate("setup", "component listen", err.Error())
		return
	}
	accepted := make(chan simnet.Conn, 1)
	go k.Trap(func() {
		c, err := ln.Accept()
		if err == nil {
			accepted <- c
		}
	})
	c1, err := simnet.Dial("unix", "/tmp/component.sock")
	if err != nil {
		r.Violate("setup", "component dial", err.Error())
		return
	}
	c2 := <-accepted
	cfgA, cfgB := yamux.DefaultConfig(), yamux.DefaultConfig()
	cfgA.LogOutput, cfgB.LogOutput = io.Discard, io.Discard
	cfgA.StreamCloseTimeout = 50 * time.Millisecond
	sa, err1 := yamux.Client(c1, cfgA)
	sb, err2 := yamux.Server(c2, cfgB)
	if err1 != nil || err2 != nil {
		r.Violate("setup", "component yamux", fmt.Sprint(err1, err2))
		return
	}
	a, b := plugin.NewMuxBrokerForSim(sa), plugin.NewMuxBrokerForSim(sb)
	go k.Trap(a.Run)
	go k.Trap(b.Run)
	defer sa.Close()
	defer sb.Close()
	id := uint32(7)
	pairOK := func(tag string, id uint32, acceptAt, dialAt time.Duration) {
		var wg sync.WaitGroup
		var aerr, derr error
		var got string
		t0 := w.Now()
		inj := w.InjectedTotal()
		wg.Add(2)
		go k.Trap(func() {
			defer wg.Done()
			time.Sleep(acceptAt - (w.Now() - t0))
			conn, err := b.Accept(id)
			aerr = err
			if err == nil {
				plugins.ServeEcho(conn, id)
			}
		})
		go k.Trap(func() {
			defer wg.Done()
			time.Sleep(dialAt - (w.Now() - t0))
			conn, err := a.Dial(id)
			derr = err
			if err == nil {
				got, derr = plugins.EchoOnce(conn, id, 32)
				conn.Close()
			}
		})
		done := make(chan struct{})
		go func() { wg.Wait(); close(done) }()
		select {
		case <-done:
		case <-time.After(60 * time.Second):
			r.Violate("hang", "op=pair "+ctx+" step="+tag, "accept/dial pair never completed")
			return
		}
		if w.InjectedTotal()-inj > 500*time.Millisecond {
			return
		}
		if aerr != nil || derr != nil {
			r.Violate("lost-pair", ctx+" step="+tag, fmt.Sprintf("accept at +%v, dial at +%v: accept err=%v, dial err=%v", acceptAt, dialAt, aerr, derr))
		} else if got != fmt.Sprintf("id=%d", id) {
			r.Violate("misroute", ctx+" step="+tag, fmt.Sprintf("id %d answered by %q", id, got))
		}
	}
	// control: an ordinary pair works on this session
	pairOK("control", 3, 0, 10*time.Millisecond)
	// the failed establishment
	tFail := w.Now()
	if err := plugins.AbortStream(a, id, 4); err != nil {
		r.Violate("setup", "component abort", err.Error())
		return
	}
	time.Sleep(200 * time.Millisecond) // > StreamCloseTimeout: the stream has been reset
	if conn, err := b.Accept(id); err == nil {
		// (the ack went out before the reset was seen: no fault this time)
		conn.Close()
		w.Probe("component.ack-did-not-fail")
	} else {
		w.Probe("component.ack-failed")
	}
	// the retry, straddling tFail+5s
	elapsed := w.Now() - tFail
	early := 2*time.Second - elapsed
	late := 5*time.Second + 400*time.Millisecond - elapsed
	if mode == "dial-first" {
		pairOK("retry", id, late, early)
	} else {
		pairOK("retry", id, early, late)
	}
	pairOK("fresh-after", 9, 0, 10*time.Millisecond)
}

// runC06LongLived: a net/rpc connection (with and without TLS) that outlives
// the client's StartTimeout several times over, idle in between: brokered
// connections made before keep answering, new ones and Dispenses still work.
func runC06LongLived(r *h.Run) {
	w := r.W
	c := r.ConfFromParams()
	c.Proto = "netrpc"
	ctx := fmt.Sprintf("broker=mux long-lived conf=%s starttimeout=%v", c.String(), c.Timeout)
	s := open(r, c)
	if s == nil {
		return
	}
	gc := s.cmd.(*plugins.RPCClient)
	inj0 := w.InjectedTotal()
	quiet := func() bool { return w.InjectedTotal()-inj0 < 2*time.Second && w.FaultCount("conn.rst") == 0 }
	s.cmd.Do("accept", "9100")
	conn, err := gc.Broker.Dial(9100)
	if err != nil {
		r.Violate("lost-pair", ctx+" step=first", err.Error())
		s.kill()
		return
	}
	defer conn.Close()
	idle := c.Timeout
	if idle == 0 {
		idle = time.Minute
	}
	for round := 1; round <= 3; round++ {
		time.Sleep(idle + idle/2)
		step := fmt.Sprintf("round=%d", round)
		if o := r.DoNoHang("EchoOld", 60*time.Second, ctx, func() (any, error) { return plugins.EchoOnce(conn, 9100, 48) }); o.Err != nil && quiet() {
			r.Violate("main-conn-lost", ctx+" old-brokered-connection "+step, fmt.Sprintf("a brokered connection made at the start failed after %v: %v", w.Now(), o.Err))
			break
		}
		id := uint32(9100 + round)
		s.cmd.Do("accept", fmt.Sprint(id))
		if o := r.DoNoHang(fmt.Sprintf("Dial(%d)", id), 60*time.Second, ctx, func() (any, error) { return h.HostDialPing(s.cmd, id) }); o.Err != nil && quiet() {
			r.Violate("lost-pair", ctx+" "+step, fmt.Sprintf("accept+dial of id %d, %v after the connection was made: %v", id, w.Now(), o.Err))
			break
		} else if o.Err == nil && o.Val.(string) != fmt.Sprintf("id=%d", id) {
			r.Violate("misroute", ctx+" "+step, fmt.Sprint(o.Val))
		}
		if o := r.DoNoHang("Dispense", 60*time.Second, ctx, func() (any, error) {
			raw, err := s.cp.Dispense(h.PluginName)
			if err != nil {
				return nil, err
			}
			return raw.(plugins.Cmd).Do("tag", "")
		}); o.Err != nil && quiet() {
			r.Violate("dispense-failed", ctx+" "+step, fmt.Sprintf("Dispense %v after the connection was made: %v", w.Now(), o.Err))
			break
		}
	}
	w.Probe("mux.long-lived")
	plug := w.ProcByName("plugin")
	s.kill()
	if plug != nil && plug.GotKill && quiet() {
		r.Violate("main-conn-lost", ctx+" at-kill", "the plugin had to be force-killed: the graceful shutdown request did not get through")
	}
}

// runBrokerBurst: k establishments issued at the same instant (the accepts
// first, then all dials at once; or k Dispenses at once), each of which must
// succeed and reach its own peer.
func runBrokerBurst(r *h.Run, c h.Conf, kind string) {
	w := r.W
	mode := r.Spec.P("burst", "hdial")
	kk, _ := strconv.Atoi(r.Spec.P("k", "8"))
	ctx := fmt.Sprintf("broker=%s burst=%s k=%d", kind, mode, kk)
	s := open(r, c)
	if s == nil {
		return
	}
	inj0 := w.InjectedTotal()
	type res struct {
		id  uint32
		out h.Outcome
	}
	results := make([]res, kk)
	var wg sync.WaitGroup
	withOpts := false
	if strings.HasSuffix(mode, "opts") {
		// every dial uses ONE shared slice of custom dial options (gRPC)
		withOpts = true
		mode = strings.TrimSuffix(mode, "opts")
	}
	switch mode {
	case "hdial", "pdial":
		for i := 0; i < kk; i++ {
			id := uint32(8000 + i)
			if mode == "hdial" {
				s.cmd.Do("accept", fmt.Sprint(id))
			} else {
				h.HostAccept(r, s.cmd, id)
			}
		}
		time.Sleep(20 * time.Millisecond)
		for i := 0; i < kk; i++ {
			i, id := i, uint32(8000+i)
			wg.Add(1)
			go k.Trap(func() {
				defer wg.Done()
				results[i] = res{id, r.Do(fmt.Sprintf("BurstDial(%d)", id), 90*time.Second, func() (any, error) {
					if withOpts {
						if mode == "hdial" {
							return plugins.DialPingWithOpts(s.cmd.(*plugins.GRPCClient).Broker, id)
						}
						return s.cmd.Do("dialopts", fmt.Sprint(id))
					}
					if mode == "hdial" {
						return h.HostDialPing(s.cmd, id)
					}
					return s.cmd.Do("dial", fmt.Sprint(id))
				})}
			})
		}
		wg.Wait()
		for _, rs := range results {
			switch {
			case rs.out.Hung:
				r.Violate("hang", "op=Dial "+ctx, "dial never returned")
			case rs.out.Err != nil:
				if w.InjectedTotal()-inj0 < 2*time.Second {
					r.Violate("lost-pair", ctx, fmt.Sprintf("accepts for %d ids were outstanding, then all were dialled at once; the dial of id %d failed: %v", kk, rs.id, rs.out.Err))
				}
			case rs.out.Val.(string) != fmt.Sprintf("id=%d", rs.id):
				r.Violate("misroute", ctx, fmt.Sprintf("id %d answered by %q", rs.id, rs.out.Val))
			}
		}
	case "dispense":
		tags := make([]string, kk)
		for i := 0; i < kk; i++ {
			i := i
			wg.Add(1)
			go k.Trap(func() {
				defer wg.Done()
				results[i] = res{uint32(i), r.Do(fmt.Sprintf("BurstDispense#%d", i), 90*time.Second, func() (any, error) {
					raw, err := s.cp.Dispense(h.PluginName)
					if err != nil {
						return nil, err
					}
					return raw.(plugins.Cmd).Do("tag", "")
				})}
			})
		}
		wg.Wait()
		seen := map[string]int{}
		for i, rs := range results {
			switch {
			case rs.out.Hung:
				r.Violate("hang", "op=Dispense "+ctx, "Dispense never returned")
			case rs.out.Err != nil:
				if w.InjectedTotal()-inj0 < 2*time.Second {
					r.Violate("dispense-failed", ctx, fmt.Sprintf("%d Dispenses were issued at once; number %d failed: %v", kk, i, rs.out.Err))
				}
			default:
				tags[i] = rs.out.Val.(string)
				seen[tags[i]]++
			}
		}
		for t, n := range seen {
			if n > 1 {
				r.Violate("shared-server", ctx, fmt.Sprintf("%d Dispenses reached the same server object %s", n, t))
			}
		}
	}
	w.Probe("burst." + mode)
	if o := r.DoNoHang("Ping", 60*time.Second, ctx, func() (any, error) { return nil, s.cp.Ping() }); o.Err != nil && w.InjectedTotal()-inj0 < 2*time.Second {
		r.Violate("main-conn-lost", ctx, fmt.Sprintf("ping after the burst failed: %v", o.Err))
	}
	s.kill()
}

func parseDur(s string) time.Duration {
	d, _ := time.ParseDuration(s)
	return d
}

func runBrokerPairs(r *h.Run, c h.Conf, kind string) {
	w := r.W
	if c.Proto == "netrpc" && r.Spec.P("fixed", "") != "1" {
		// Plugin.Server() may take a while, and may fail, per plugin name
		c.Sh = plugins.NewShared("v1/netrpc")
		c.Sh.SlowServer = map[string]time.Duration{}
		for _, n := range []string{"cmd1", "cmd2", "cmd3", "fail1", "fail2"} {
			c.Sh.SlowServer[n] = time.Duration(w.Range("dispense/slow/"+n, 4)) * 400 * time.Millisecond
		}
	}
	s := open(r, c)
	if s == nil {
		return
	}
	var pairs []*pair
	if r.Spec.P("fixed", "") == "1" {
		p := &pair{id: 1000, hostDials: r.Spec.P("dir", "h") == "h", size: 64}
		g := parseDur(r.Spec.P("gap", "0"))
		if r.Spec.P("ord", "a") == "a" {
			p.tDial = g
		} else {
			p.tAccept = g
		}
		pairs = append(pairs, p)
	} else {
		n := 1 + w.Range("pairs/n", 8)
		for i := 0; i < n; i++ {
			p := &pair{id: uint32(1000 + i)}
			p.hostDials = w.Range("pairs/dir", 2) == 0
			base := time.Duration(w.Range("pairs/base", 4)) * 700 * time.Millisecond
			gapSel := w.Range("pairs/gap", 8)
			gap := []time.Duration{0, time.Millisecond, 300 * time.Millisecond, 1500 * time.Millisecond, 1990 * time.Millisecond, 3 * time.Second, 4400 * time.Millisecond, 4900 * time.Millisecond}[gapSel]
			if w.Range("pairs/order", 2) == 0 {
				p.tAccept, p.tDial = base, base+gap
			} else {
				p.tAccept, p.tDial = base+gap, base
			}
			p.size = []int{64, 0, 1, 1023, 4096, 70000, 300000}[w.Range("pairs/size", 7)]
			if c.Proto == "netrpc" {
				p.late = []int{0, 0, 1000, 300000, 1 << 20}[w.Range("pairs/late", 5)]
			}
			pairs = append(pairs, p)
		}
	}
	var wg sync.WaitGroup
	for _, p := range pairs {
		runPair(s, p, &wg)
	}
	// concurrent Dispense traffic on the same connection
	nd := 0
	if r.Spec.P("fixed", "") != "1" {
		nd = w.Range("dispense/n", 4)
		if c.Proto == "netrpc" {
			nd = w.Range("dispense/n", 7)
		}
	}
	type disp struct {
		tag string
		err error
	}
	dres := make([]disp, nd)
	var dwg sync.WaitGroup
	for i := 0; i < nd; i++ {
		i := i
		off := time.Duration(w.Range("dispense/off", 6)) * 400 * time.Millisecond
		dwg.Add(1)
		go k.Trap(func() {
			defer dwg.Done()
			time.Sleep(off)
			name := h.PluginName
			if c.Proto == "netrpc" {
				name = []string{"cmd1", "fail1", "cmd2", "cmd3", "fail2", "cmd1", "cmd2"}[i%7]
			}
			if strings.HasPrefix(name, "fail") {
				o := r.DoNoHang(fmt.Sprintf("Dispense[%d]", i), 60*time.Second, kind, func() (any, error) { return s.cp.Dispense(name) })
				if o.Err == nil && !o.Hung {
					r.Violate("setup", "failing dispense succeeded", name)
				}
				dres[i].tag = fmt.Sprintf("failed-%d", i)
				return
			}
			o := r.DoNoHang(fmt.Sprintf("Dispense[%d]", i), 60*time.Second, kind, func() (any, error) {
				raw, err := s.cp.Dispense(name)
				if err != nil {
					return nil, err
				}
				tag, err := raw.(plugins.Cmd).Do("tag", "")
				if err == nil && c.Proto == "netrpc" && !strings.Contains(tag, "/"+name+"/") {
					return tag, fmt.Errorf("dispense of %q reached the server object %q", name, tag)
				}
				return tag, err
			})
			if o.Err != nil && strings.Contains(o.Err.Error(), "reached the server object") {
				r.Violate("misroute", "broker="+kind+" dispense reached another dispense's server object", o.Err.Error())
				dres[i].tag = fmt.Sprintf("misrouted-%d", i)
				return
			}
			dres[i].err = o.Err
			if o.Val != nil {
				dres[i].tag = o.Val.(string)
			}
		})
	}
	wg.Wait()
	dwg.Wait()
	for _, p := range pairs {
		judgePair(r, kind, p, 2*time.Second)
	}
	seen := map[string]bool{r.Info["tag0"]: true}
	for i, d := range dres {
		if d.err != nil {
			// a dispense is itself an accept/dial pair issued back to back
			if w.InjectedTotal() < 2*time.Second {
				r.Violate("lost-pair", "broker="+kind+" dispense", fmt.Sprintf("Dispense %d failed: %v", i, d.err))
			}
			continue
		}
		if c.Proto == "netrpc" {
			if seen[d.tag] {
				r.Violate("misroute", "broker="+kind+" dispense reached another dispense's server object", fmt.Sprintf("tag %q returned twice", d.tag))
			}
			seen[d.tag] = true
		}
	}
	// the first dispensed client is by now an old connection: a large argument
	// and a large result must still go through completely
	if r.Spec.P("fixed", "") != "1" || r.Spec.P("gap", "") == "4400ms" {
		time.Sleep(time.Duration(w.Range("late/wait", 3)) * 3 * time.Second)
		n := []int{1000, 400000, 1 << 20}[w.Range("late/size", 3)]
		if r.Spec.P("fixed", "") == "1" {
			n = 400000
		}
		lo := r.DoNoHang("Do(echo,late)", 90*time.Second, kind, func() (any, error) { return s.cmd.Do("echo", strings.Repeat("e", n)) })
		if lo.Err != nil && w.InjectedTotal() < 10*time.Second && w.FaultCount("conn.rst") == 0 {
			r.Violate("truncated-or-failed-late-call", "broker="+kind, fmt.Sprintf("a %d byte call on a dispensed client %v after it was dispensed failed: %v", n, w.Now(), lo.Err))
		} else if lo.Err == nil && len(lo.Val.(string)) != n {
			r.Violate("truncated-or-failed-late-call", "broker="+kind+" short", fmt.Sprintf("echo of %d bytes returned %d", n, len(lo.Val.(string))))
		}
	}
	// a second attempt after a FAILED one: an ID is dialled although nobody
	// accepted it (the dial fails after the pending window), or accepted
	// although nobody dials (the accept gives up); then the pair is issued
	// properly - accept, 300 ms, dial - and must succeed
	// (only on a connection that has not been through multi-second stalls: after
	// those the session may be gone altogether - yamux's keep-alive - and the
	// pairs above have been judged with that in mind)
	if c.TLS != "auto" && w.InjectedTotal() < 2*time.Second && (r.Spec.P("retry", "") != "" || (r.Spec.P("fixed", "") != "1" && w.Range("retry/on", 4) == 0)) {
		mode := r.Spec.P("retry", "")
		if mode == "" {
			mode = []string{"hd", "pd", "ha", "pa"}[w.Range("retry/mode", 4)]
		}
		hostDials := mode[0] == 'h' // who dials in the failed attempt and in the retry
		failed := map[byte]string{'d': "dial-without-accept", 'a': "accept-without-dial"}[mode[1]]
		if mode[1] == 'a' {
			hostDials = mode[0] != 'h' // mode names the side of the lonely accept
		}
		xid := uint32(3100)
		xctx := fmt.Sprintf("broker=%s retry-after=%s dialler=%s", kind, failed, map[bool]string{true: "host", false: "plugin"}[hostDials])
		i0 := w.InjectedTotal()
		doDial := func(tag string) h.Outcome {
			return r.Do(fmt.Sprintf("RetryDial(%d)[%s]", xid, tag), 60*time.Second, func() (any, error) {
				if hostDials {
					return h.HostDialPing(s.cmd, xid)
				}
				return s.cmd.Do("dial", fmt.Sprint(xid))
			})
		}
		doAccept := func() {
			if hostDials {
				s.cmd.Do("accept", fmt.Sprint(xid))
			} else {
				h.HostAccept(r, s.cmd, xid)
			}
		}
		okSoFar := true
		if mode[1] == 'd' {
			o := doDial("lonely")
			if o.Hung {
				r.Violate("hang", "op=Dial "+xctx, "a dial nobody accepts never returned")
				okSoFar = false
			} else if o.Err == nil {
				r.Violate("phantom-connection", xctx, fmt.Sprintf("a dial nobody accepted succeeded: %v", o.Val))
				okSoFar = false
			}
		} else {
			doAccept()
			// the lonely accept gives up after the pending window (net/rpc) or
			// keeps its listener (gRPC: the connection info expires at the dialler)
			// (the harness must not issue the second accept of the ID while the
			// first is still waiting - "should not be called multiple times with
			// the same ID at one time": injected stalls postpone the first one's
			// start and with it its end)
			t0 := w.Now()
			time.Sleep(time.Duration(5200+w.Range("retry/wait", 3)*700) * time.Millisecond)
			for w.Now()-t0 < 5200*time.Millisecond+(w.InjectedTotal()-i0) {
				time.Sleep(5200*time.Millisecond + (w.InjectedTotal() - i0) - (w.Now() - t0))
			}
		}
		if okSoFar {
			time.Sleep(time.Duration(w.Range("retry/pause", 3)) * 400 * time.Millisecond)
			if !(kind == "grpc" && mode[1] == 'a') {
				doAccept()
			} else {
				// gRPC keeps the listener of the lonely accept; a fresh Accept of the
				// ID is what a caller who retries does all the same
				doAccept()
			}
			time.Sleep(300 * time.Millisecond)
			o := doDial("retry")
			w.Probe("retry." + failed)
			switch {
			case o.Hung:
				r.Violate("hang", "op=Dial "+xctx+" step=retry", "dial never returned")
			case o.Err != nil:
				if w.InjectedTotal()-i0 < time.Second {
					r.Violate("lost-pair", xctx+" step=retry", fmt.Sprintf("after the failed attempt the pair was issued properly (accept, 300 ms, dial) and the dial failed: %v", o.Err))
				}
			case o.Val.(string) != fmt.Sprintf("id=%d", xid):
				r.Violate("misroute", xctx+" step=retry", fmt.Sprintf("id %d answered by %q", xid, o.Val))
			}
		}
	}
	// gRPC broker: an accept nobody dialled whose listener is closed again
	// (server stopped) INSIDE the pending window, then the pair issued properly
	// for the same ID: the dial must be told about the new listener, not the
	// closed one
	if kind == "grpc" && c.TLS != "auto" && w.InjectedTotal() < 2*time.Second && (r.Spec.P("staleinfo", "") != "" || (r.Spec.P("fixed", "") != "1" && w.Range("staleinfo/on", 4) == 0)) {
		hostAccepts := r.Spec.P("staleinfo", "") == "h" || (r.Spec.P("staleinfo", "") == "" && w.Range("staleinfo/dir", 2) == 0)
		yid := uint32(3300)
		yctx := fmt.Sprintf("broker=grpc re-accept-after-undialled-accept accept-side=%s", map[bool]string{true: "host", false: "plugin"}[hostAccepts])
		i0 := w.InjectedTotal()
		acc := func() (func(), error) {
			if hostAccepts {
				return h.HostAcceptOwn(s.cmd, yid)
			}
			_, err := s.cmd.Do("acceptown", fmt.Sprint(yid))
			return func() { s.cmd.Do("stopown", fmt.Sprint(yid)) }, err
		}
		stop, err := acc()
		if err != nil {
			r.Violate("lost-pair", yctx+" step=lonely-accept", err.Error())
		} else {
			// (also: the second accept late in the first one's window and the dial
			// after that window has closed, still well inside the second's)
			time.Sleep([]time.Duration{200, 1100, 2000, 2900, 4000, 4600}[w.Range("staleinfo/hold", 6)] * time.Millisecond)
			r.Do("StopLonely", 30*time.Second, func() (any, error) { stop(); return nil, nil })
			time.Sleep(time.Duration(w.Range("staleinfo/pause", 3)) * 300 * time.Millisecond)
			// (judged only if nothing was held up for a sizeable part of the 300 ms
			// between the second accept and the dial: a receive loop that is stalled
			// that long still holds the out-of-date info when the dial looks)
			i0 = w.InjectedTotal() - 800*time.Millisecond
			stop2, err := acc()
			if err != nil {
				r.Violate("lost-pair", yctx+" step=accept", err.Error())
			} else {
				time.Sleep([]time.Duration{300, 300, 1500}[w.Range("staleinfo/dialdelay", 3)] * time.Millisecond)
				o := r.Do(fmt.Sprintf("StaleInfoDial(%d)", yid), 60*time.Second, func() (any, error) {
					if hostAccepts {
						return s.cmd.Do("dial", fmt.Sprint(yid))
					}
					return h.HostDialPing(s.cmd, yid)
				})
				w.Probe("grpc.re-accept-after-undialled-accept")
				switch {
				case o.Hung:
					r.Violate("hang", "op=Dial "+yctx, "dial never returned")
				case o.Err != nil:
					if w.InjectedTotal()-i0 < time.Second {
						r.Violate("lost-pair", yctx+" step=dial", fmt.Sprintf("accept and dial were issued 300 ms apart; the dial failed: %v", o.Err))
					}
				case o.Val.(string) != fmt.Sprintf("id=%d", yid):
					r.Violate("misroute", yctx, fmt.Sprintf("id %d answered by %q", yid, o.Val))
				}
				r.Do("StopSecond", 30*time.Second, func() (any, error) { stop2(); return nil, nil })
			}
		}
	}
	// an ID used a second time after its listener was closed, the second
	// accept/dial pair issued a few seconds after the first (around the
	// broker's own 5 s timers), in either order
	if kind == "grpc" && c.TLS != "auto" && (r.Spec.P("reuse", "") != "" || (r.Spec.P("fixed", "") != "1" && w.Range("reuse/on", 3) == 0)) {
		inj0 := w.InjectedTotal()
		hostAccepts := w.Range("reuse/dir", 2) == 0
		acceptFirst := w.Range("reuse/ord", 2) == 0
		wait := []time.Duration{3200, 3900, 4400, 4800}[w.Range("reuse/wait", 4)] * time.Millisecond
		gap := []time.Duration{400, 1000, 1600}[w.Range("reuse/gap", 3)] * time.Millisecond
		if v := r.Spec.P("reuse", ""); v != "" {
			// fixed cell: "<h|p><a|d>"
			hostAccepts, acceptFirst, wait, gap = v[0] == 'h', v[1] == 'a', 4400*time.Millisecond, time.Second
			if len(v) > 2 && v[2] == 's' {
				// soon: the ID is used again shortly after its first use
				wait, gap = 300*time.Millisecond, 100*time.Millisecond
			}
		}
		rid := uint32(1700)
		rctx := fmt.Sprintf("broker=grpc id-reuse accept-side=%s order=%s", map[bool]string{true: "host", false: "plugin"}[hostAccepts], map[bool]string{true: "accept-first", false: "dial-first"}[acceptFirst])
		var stop func()
		accept := func(round string) bool {
			if hostAccepts {
				st, err := h.HostAcceptOwn(s.cmd, rid)
				if err != nil {
					r.Violate("lost-pair", rctx+" step="+round, fmt.Sprintf("Accept(%d) failed: %v", rid, err))
					return false
				}
				stop = st
				return true
			}
			if _, err := s.cmd.Do("acceptown", fmt.Sprint(rid)); err != nil {
				r.Violate("lost-pair", rctx+" step="+round, fmt.Sprintf("plugin Accept(%d) failed: %v", rid, err))
				return false
			}
			stop = func() { s.cmd.Do("stopown", fmt.Sprint(rid)) }
			return true
		}
		dial := func(round string) {
			o := r.Do(fmt.Sprintf("ReuseDial(%d)[%s]", rid, round), 60*time.Second, func() (any, error) {
				if hostAccepts {
					return s.cmd.Do("dial", fmt.Sprint(rid))
				}
				return h.HostDialPing(s.cmd, rid)
			})
			quiet := w.InjectedTotal()-inj0 < 300*time.Millisecond && w.FaultCount("conn.rst") == 0
			switch {
			case o.Hung:
				r.Violate("hang", "op=Dial "+rctx+" step="+round, "dial never returned")
			case o.Err != nil:
				if quiet {
					r.Violate("lost-pair", rctx+" step="+round, fmt.Sprintf("dial of id %d failed: %v", rid, o.Err))
				}
			case o.Val.(string) != fmt.Sprintf("id=%d", rid):
				r.Violate("misroute", rctx+" step="+round, fmt.Sprintf("id %d answered by %q", rid, o.Val))
			}
		}
		t0 := w.Now()
		if accept("first") {
			dial("first")
			stop()
			w.Probe("grpc.id-reuse")
			if d := wait - (w.Now() - t0); d > 0 {
				time.Sleep(d)
			}
			if acceptFirst {
				if accept("reuse") {
					time.Sleep(gap)
					dial("reuse")
					stop()
				}
			} else {
				var dwg sync.WaitGroup
				dwg.Add(1)
				go k.Trap(func() { defer dwg.Done(); dial("reuse") })
				time.Sleep(gap)
				ok := accept("reuse")
				dwg.Wait()
				if ok {
					stop()
				}
			}
		}
	}
	// net/rpc: an ID used for a second rendezvous a few seconds after the first
	// (nothing to close in between: the first connection has simply been used)
	if kind == "mux" && (r.Spec.P("reuse", "") != "" || (r.Spec.P("fixed", "") != "1" && w.Range("reuse/on", 3) == 0)) {
		inj0 := w.InjectedTotal()
		hostAccepts := w.Range("reuse/dir", 2) == 0
		firstAcceptFirst := w.Range("reuse/ord1", 2) == 0
		secondAcceptFirst := w.Range("reuse/ord2", 2) == 0
		wait := []time.Duration{3200, 3900, 4400, 4800}[w.Range("reuse/wait", 4)] * time.Millisecond
		gap := []time.Duration{400, 1000, 1600}[w.Range("reuse/gap", 3)] * time.Millisecond
		if v := r.Spec.P("reuse", ""); len(v) >= 3 {
			// fixed cell: "<h|p><a|d first><a|d second>"
			hostAccepts, firstAcceptFirst, secondAcceptFirst, wait, gap = v[0] == 'h', v[1] == 'a', v[2] == 'a', 4400*time.Millisecond, time.Second
		}
		rid := uint32(1800)
		rctx := fmt.Sprintf("broker=mux id-reuse accept-side=%s first=%s second=%s", map[bool]string{true: "host", false: "plugin"}[hostAccepts],
			map[bool]string{true: "accept-first", false: "dial-first"}[firstAcceptFirst], map[bool]string{true: "accept-first", false: "dial-first"}[secondAcceptFirst])
		accept := func() {
			if hostAccepts {
				h.HostAccept(r, s.cmd, rid)
			} else {
				s.cmd.Do("accept", fmt.Sprint(rid))
			}
		}
		rendezvous := func(round string, acceptFirst bool, g time.Duration) {
			var o h.Outcome
			dial := func() {
				o = r.Do(fmt.Sprintf("ReuseDial(%d)[%s]", rid, round), 60*time.Second, func() (any, error) {
					if hostAccepts {
						return s.cmd.Do("dial", fmt.Sprint(rid))
					}
					return h.HostDialPing(s.cmd, rid)
				})
			}
			if acceptFirst {
				accept()
				time.Sleep(g)
				dial()
			} else {
				var dwg sync.WaitGroup
				dwg.Add(1)
				go k.Trap(func() { defer dwg.Done(); dial() })
				time.Sleep(g)
				accept()
				dwg.Wait()
			}
			quiet := w.InjectedTotal()-inj0 < 300*time.Millisecond && w.FaultCount("conn.rst") == 0
			switch {
			case o.Hung:
				r.Violate("hang", "op=Dial "+rctx+" step="+round, "dial never returned")
			case o.Err != nil:
				if quiet {
					r.Violate("lost-pair", rctx+" step="+round, fmt.Sprintf("accept and dial of id %d were issued %v apart, but the dial failed: %v", rid, g, o.Err))
				}
			case o.Val.(string) != fmt.Sprintf("id=%d", rid):
				r.Violate("misroute", rctx+" step="+round, fmt.Sprintf("id %d answered by %q", rid, o.Val))
			}
		}
		t0 := w.Now()
		rendezvous("first", firstAcceptFirst, 100*time.Millisecond)
		w.Probe("mux.netrpc-id-reuse")
		if d := wait - (w.Now() - t0); d > 0 {
			time.Sleep(d)
		}
		rendezvous("reuse", secondAcceptFirst, gap)
	}
	// the control connection still works
	o := r.DoNoHang("Ping", 60*time.Second, kind, func() (any, error) { return nil, s.cp.Ping() })
	if o.Err != nil && w.InjectedTotal() < 10*time.Second && w.FaultCount("conn.rst") == 0 {
		r.Violate("main-conn-lost", "broker="+kind, fmt.Sprintf("ping after brokered traffic failed: %v", o.Err))
	}
	s.kill()
}

// ---- C07 ------------------------------------------------------------------------------

func confCases() []map[string]string {
	return []map[string]string{
		P("tls", "none", "launch", "cmd"),
		P("tls", "auto", "launch", "cmd"),
		P("tls", "none", "launch", "runner"),
		P("tls", "none", "launch", "runner", "xlate", "1"),
		P("tls", "auto", "launch", "runner", "xlate", "1"),
	}
}

func init() {
	Register(&Prop{ID: "C07",
		Meta: Meta{Stages: 2, Level: "exploration",
			Rule: "real gRPC Client+Serve (no multiplexing) in two simulated processes; k in [1,8] brokered IDs per run, both directions, drawn accept/dial order and gap 0-4.9s; in a third of the runs an ID is used a second time after its listener was closed (own server on Broker.Accept, stopped, same ID accepted and dialled again 3.2-4.8 s later in either order); TLS none/AutoMTLS; command launch and custom runner with a container-style (chroot + bind mount) address translation; seeded schedule noise with focus on grpc_broker.go, socket latency/short reads; oracle = the PingPong answer through Dial(n) is id=n, first call succeeds for pairs issued <=2s apart (incl. injected delay) Plus the rendezvous with ONE CONTEXT SWITCH AT EVERY STATEMENT: stage 0 profiles the go-plugin statements either process passes while one pair is established (direction x order), stage 1 runs one case per (process, statement, occurrence) in which the peer issues its half of the pair exactly while that goroutine is at that statement (or, if already issued, the goroutine stays there 2 ms); the dial must succeed and be answered by id=n, the control connection and a fresh pair must still work."},
		Plan: func(tier string, seed uint64, stage int, prev []*h.Result) []*k.Spec {
			if stage > 0 {
				return pairRaceSpecs("C07", nil, tier, seed, stage, prev)
			}
			n := 1200
			if tier == "thorough" {
				n = 300000
			}
			if tier == "selftest" {
				n = 6
			}
			var out []*k.Spec
			for _, cc := range []map[string]string{P("tls", "none", "launch", "cmd"), P("tls", "auto", "launch", "runner", "xlate", "1")} {
				out = append(out, pairRaceSpecs("C07", cc, tier, seed, 0, nil)...)
			}
			for ci, cc := range confCases() {
				for _, dir := range []string{"h", "p"} {
					for _, ord := range []string{"a", "d"} {
						for _, gap := range []string{"0", "1900ms", "4400ms"} {
							out = append(out, sp("C07", fmt.Sprintf("fixed/c%d/%s/%s/%s", ci, dir, ord, gap), seed, cp(cc, "fixed", "1", "dir", dir, "ord", ord, "gap", gap)))
						}
					}
				}
			}
			// TCP listeners (a Windows-style plugin, and host), also behind a
			// container-style runner that publishes the plugin's ports shifted
			for _, tc := range []map[string]string{P("launch", "cmd"), P("launch", "runner"), P("launch", "runner", "xlate", "1")} {
				for _, hg := range []string{"", "windows"} {
					for _, dir := range []string{"h", "p"} {
						for _, ord := range []string{"a", "d"} {
							out = append(out, sp("C07", fmt.Sprintf("fixed-tcp/%s%s/host%s/%s/%s", tc["launch"], tc["xlate"], hg, dir, ord), seed,
								cp(tc, "tls", "none", "fixed", "1", "dir", dir, "ord", ord, "gap", "0", "pgoos", "windows", "hgoos", hg)))
						}
					}
				}
			}
			for _, si := range []string{"h", "p"} {
				out = append(out, sp("C07", "fixed-staleinfo/"+si, seed, P("tls", "none", "launch", "cmd", "fixed", "1", "dir", "h", "ord", "a", "gap", "0", "staleinfo", si)))
				for hold := 0; hold < 6; hold++ {
					for dd := 1; dd < 3; dd++ {
						s := sp("C07", fmt.Sprintf("fixed-staleinfo/%s/hold%d/dial%d", si, hold, dd), seed, P("tls", "none", "launch", "cmd", "fixed", "1", "dir", "h", "ord", "a", "gap", "0", "staleinfo", si))
						s.Explicit = true
						s.Overrides = map[string]int64{"staleinfo/hold#0": int64(hold), "staleinfo/dialdelay#0": int64(dd)}
						out = append(out, s)
					}
				}
			}
			for _, rt := range []string{"hd", "pd", "ha", "pa"} {
				out = append(out, sp("C07", "fixed-retry/"+rt, seed, P("tls", "none", "launch", "cmd", "fixed", "1", "dir", "h", "ord", "a", "gap", "0", "retry", rt)))
			}
			for _, mode := range []string{"hdial", "pdial", "hdialopts", "pdialopts"} {
				for _, kk := range []string{"4", "12", "40"} {
					nv := 2
					if strings.HasSuffix(mode, "opts") {
						nv = 6
					}
					if tier == "thorough" {
						nv = 40
					}
					for v := 0; v < nv; v++ {
						s := sp("C07", fmt.Sprintf("burst/%s/%s/%d", mode, kk, v), seed+uint64(v)*7919, P("tls", []string{"none", "auto"}[v%2], "launch", "cmd", "burst", mode, "k", kk))
						if v > 0 {
							s.HotPermille, s.DelayClass = 60, []string{"tiny", "small"}[v%2]
							s.Focus = "grpc_broker.go,grpc_client.go:dialGRPCConn"
							s.Wake = []int{0, 500, 1000}[v%3]
						}
						out = append(out, s)
					}
				}
			}
			for _, ru := range []string{"ha", "hd", "pa", "pd"} {
				out = append(out, sp("C07", "fixed-reuse/"+ru, seed, P("tls", "none", "launch", "cmd", "fixed", "1", "dir", "h", "ord", "a", "gap", "0", "reuse", ru)))
				// the same with the broker's expiry goroutines stalled for up to seconds
				// (a goroutine that is runnable but does not get to run)
				ns := 40
				if tier == "thorough" {
					ns = 400
				}
				for v := 0; v < ns; v++ {
					s := sp("C07", fmt.Sprintf("fixed-reuse+stall%d/%s", v, ru), seed+uint64(v+1)*7919, P("tls", "none", "launch", "cmd", "fixed", "1", "dir", "h", "ord", "a", "gap", "0", "reuse", ru+[]string{"", "s"}[v%2]))
					s.Focus = "GRPCBroker.timeoutWait"
					s.DelayClass = "big"
					out = append(out, s)
				}
			}
			cases := confCases()
			out = append(out, seeded("C07", seed, n, func(i int, sd uint64) *k.Spec {
				s := &k.Spec{Seed: sd, Params: cp(cases[int(k.H(sd, "conf", 0)%uint64(len(cases)))])}
				swarm(s, "grpc_broker.go")
				if k.H(sd, "faults", 0)%2 == 0 {
					s.Faults = "conn.latency,conn.chunk"
				}
				return s
			})...)
			return out
		},
		Run: func(r *h.Run) {
			c := r.ConfFromParams()
			c.Proto = "grpc"
			c.Translate = r.Spec.P("xlate", "0") == "1"
			if c.TLS == "auto" {
				r.WatchPlaintext("broker=grpc tls=auto")
			}
			if r.Spec.P("pairrace", "") != "" {
				runPairRace(r, c, "grpc")
				return
			}
			if r.Spec.P("burst", "") != "" {
				runBrokerBurst(r, c, "grpc")
				return
			}
			runBrokerPairs(r, c, "grpc")
		},
	})
}

// ---- C08 ------------------------------------------------------------------------------

func init() {
	Register(&Prop{ID: "C08",
		Meta: Meta{Stages: 2, Level: "exploration",
			Rule: "real gRPC Client+Serve with broker multiplexing; a sequence of 1-5 brokered connections established one at a time as documented (drawn direction, accept-first or dial-first, gap 0-4s), pings on the main connection and on every earlier brokered connection in between; seeded schedule noise with focus on GRPCBroker.Accept/listenForKnocks/knock/muxDial and the grpcmux package; oracle = connection n answers id=n (never the main service or another id), first call succeeds for pairs inside the window, main and earlier connections keep answering Plus the rendezvous with ONE CONTEXT SWITCH AT EVERY STATEMENT: stage 0 profiles the go-plugin statements either process passes while one pair is established (direction x order), stage 1 runs one case per (process, statement, occurrence) in which the peer issues its half of the pair exactly while that goroutine is at that statement (or, if already issued, the goroutine stays there 2 ms); the dial must succeed and be answered by id=n, the control connection and a fresh pair must still work. Plus ID re-use: the listener of an ID is closed (server stopped) and the ID accepted again after 50 ms, or AT ONCE in the same breath (with and without a second Close of the old listener, as a deferred Close after Stop does), either side; plus a dialler that keeps re-dialling an ID nobody listens on."},
		Plan: func(tier string, seed uint64, stage int, prev []*h.Result) []*k.Spec {
			if stage > 0 {
				return pairRaceSpecs("C08", nil, tier, seed, stage, prev)
			}
			n := 1200
			if tier == "thorough" {
				n = 300000
			}
			if tier == "selftest" {
				n = 6
			}
			var out []*k.Spec
			for _, tls := range []string{"none", "auto"} {
				out = append(out, pairRaceSpecs("C08", P("tls", tls), tier, seed, 0, nil)...)
			}
			for _, st := range []string{"h", "p"} {
				out = append(out, sp("C08", "fixed-stale-dialler/"+st, seed, P("fixed", "1", "tls", "none", "dir", "h", "ord", "a", "gap", "0", "stale", st)))
			}
			for v := 0; v < 6; v++ {
				s := sp("C08", fmt.Sprintf("fixed-samenum/%d", v), seed+uint64(v)*7919, P("fixed", "1", "tls", "none", "dir", "h", "ord", "a", "gap", "0", "samenum", "1"))
				if v > 1 {
					s.HotPermille, s.DelayClass = 80, "tiny"
					s.Focus = "GRPCBroker.knock,GRPCBroker.listenForKnocks,GRPCBroker.Run"
				}
				out = append(out, s)
			}
			for _, rd := range []string{"h", "p"} {
				nv := 60
				if tier == "thorough" {
					nv = 2000
				}
				for v := 0; v < nv; v++ {
					s := sp("C08", fmt.Sprintf("fixed-redial/%s/%d", rd, v), seed+uint64(v)*7919, P("fixed", "1", "tls", "none", "dir", "h", "ord", "a", "gap", "0", "redial", rd))
					if v%2 == 1 {
						s.Faults = "conn.latency"
					}
					if v%3 == 2 {
						s.HotPermille, s.DelayClass = 100, "tiny"
						s.Focus = "GRPCBroker.knock,GRPCBroker.timeoutWait,GRPCBroker.Run,GRPCBroker.getClientStream"
					}
					s.Wake = []int{0, 500, 1000}[v%3]
					out = append(out, s)
				}
			}
			for _, ra := range []string{"h", "p", "hdc", "pdc"} {
				nv := 8
				if tier == "thorough" {
					nv = 200
				}
				for v := 0; v < nv; v++ {
					s := sp("C08", fmt.Sprintf("fixed-reaccept/%s/%d", ra, v), seed+uint64(v)*7919, P("fixed", "1", "tls", "none", "dir", "h", "ord", "a", "gap", "0", "reaccept", ra))
					if v > 0 {
						s.HotPermille, s.DelayClass = 100, "tiny"
						s.Focus = "GRPCBroker.Accept,grpcmux/"
						s.Wake = []int{0, 500, 1000}[v%3]
					}
					out = append(out, s)
				}
			}
			for _, tls := range []string{"none", "auto"} {
				for _, dir := range []string{"h", "p"} {
					for _, ord := range []string{"a", "d"} {
						for _, gap := range []string{"0", "500ms", "1900ms", "4000ms"} {
							out = append(out, sp("C08", fmt.Sprintf("fixed/%s/%s/%s/%s", tls, dir, ord, gap), seed, P("fixed", "1", "tls", tls, "dir", dir, "ord", ord, "gap", gap)))
							if tls == "none" && gap == "0" && ord == "a" {
								out = append(out, sp("C08", fmt.Sprintf("fixed-reuse/%s", dir), seed, P("fixed", "1", "tls", tls, "dir", dir, "ord", ord, "gap", gap, "reuse", "1", "reusedir", dir)))
							}
						}
					}
				}
			}
			out = append(out, seeded("C08", seed, n, func(i int, sd uint64) *k.Spec {
				s := &k.Spec{Seed: sd, Params: P("tls", []string{"none", "auto"}[k.H(sd, "tls", 0)%2])}
				swarm(s, "GRPCBroker.Accept,GRPCBroker.listenForKnocks,GRPCBroker.knock,GRPCBroker.muxDial,grpcmux/")
				if s.DelayClass == "big" {
					s.DelayClass = "long"
				}
				if k.H(sd, "faults", 0)%3 == 0 {
					s.Faults = "conn.latency,conn.chunk"
				}
				return s
			})...)
			return out
		},
		Run: runC08,
	})
}

func runC08(r *h.Run) {
	w := r.W
	c := r.ConfFromParams()
	c.Proto, c.Mux = "grpc", true
	if c.TLS == "auto" {
		r.WatchPlaintext("broker=grpcmux tls=auto")
	}
	if r.Spec.P("pairrace", "") != "" {
		runPairRace(r, c, "grpcmux")
		return
	}
	s := open(r, c)
	if s == nil {
		return
	}
	if w.InjectedTotal() >= 4*time.Second {
		// the multiplexed session itself must be established within 5 s of the
		// handshake line: after a stall of that order there is nothing to judge
		w.Probe("setup.abandoned-after-injected-stall")
		s.kill()
		return
	}
	gc := s.cmd.(*plugins.GRPCClient)
	var pairs []*pair
	if r.Spec.P("fixed", "") == "1" {
		p := &pair{id: 1000, hostDials: r.Spec.P("dir", "h") == "h"}
		g := parseDur(r.Spec.P("gap", "0"))
		if r.Spec.P("ord", "a") == "a" {
			p.tDial = g
		} else {
			p.tAccept = g
		}
		pairs = append(pairs, p)
	} else {
		n := 1 + w.Range("pairs/n", 5)
		for i := 0; i < n; i++ {
			p := &pair{id: uint32(1000 + i)}
			p.hostDials = w.Range("pairs/dir", 2) == 0
			gap := []time.Duration{0, time.Millisecond, 300 * time.Millisecond, 1500 * time.Millisecond, 1990 * time.Millisecond, 3 * time.Second, 4 * time.Second}[w.Range("pairs/gap", 7)]
			if w.Range("pairs/order", 2) == 0 {
				p.tDial = gap
			} else {
				p.tAccept = gap
			}
			pairs = append(pairs, p)
		}
	}
	type kept struct {
		id       uint32
		hostSide bool
	}
	var keptConns []kept
	hostConns := map[uint32]interface{ Close() error }{}
	noisy := func() bool { return w.InjectedTotal() > 2*time.Second || w.FaultCount("conn.rst") > 0 }
	lateMark := ""
	for _, p := range pairs {
		p := p
		p.inj0 = w.InjectedTotal()
		// accept side
		go k.Trap(func() {
			time.Sleep(p.tAccept)
			if p.hostDials {
				if _, err := s.cmd.Do("accept", fmt.Sprint(p.id)); err != nil {
					w.Note("ret", fmt.Sprintf("cmd.accept(%d)", p.id), h.ErrStr(err))
				}
			} else {
				h.HostAccept(r, s.cmd, p.id)
			}
		})
		time.Sleep(p.tDial)
		o := r.Do(fmt.Sprintf("Dial(%d)[%s]", p.id, p.dir()), 60*time.Second, func() (any, error) {
			if p.hostDials {
				conn, err := gc.Broker.Dial(p.id)
				if err != nil {
					return "", err
				}
				msg, err := plugins.PingConn(conn, 20*time.Second)
				if err != nil {
					conn.Close()
					return "", err
				}
				hostConns[p.id] = conn
				return msg, nil
			}
			return s.cmd.Do("dialkeep", fmt.Sprint(p.id))
		})
		p.err, p.hung = o.Err, o.Hung
		p.injected = w.InjectedTotal() - p.inj0
		if o.Val != nil {
			p.answer, _ = o.Val.(string)
		}
		if p.gap()+p.injected >= 4500*time.Millisecond {
			// this establishment lasted about as long as the broker's 5 s timers:
			// from here on the history is one with a late peer (C09's subject,
			// see the recorded finding about stale knocks)
			lateMark = " after=late-establishment"
			w.Probe("mux.late-establishment")
		}
		p.lateMark = lateMark
		ctx := fmt.Sprintf("broker=grpcmux%s dir=%s order=%s", lateMark, p.dir(), p.order())
		judgePair(r, "grpcmux", p, 2*time.Second)
		if p.err == nil && !p.hung {
			keptConns = append(keptConns, kept{p.id, p.hostDials})
		}
		// the main connection and every earlier brokered connection still answer
		po := r.DoNoHang("Ping", 60*time.Second, ctx, func() (any, error) { return nil, s.cp.Ping() })
		if po.Err != nil && !noisy() {
			r.Violate("main-conn-lost", ctx, fmt.Sprintf("ping on the main connection failed after establishing id %d: %v\n%s", p.id, po.Err, r.HLog.String()))
			break
		}
		to := r.DoNoHang("Do(tag)", 60*time.Second, ctx, func() (any, error) { return s.cmd.Do("tag", "") })
		if to.Err != nil && !noisy() {
			r.Violate("main-conn-lost", ctx, fmt.Sprintf("call on the dispensed client failed after establishing id %d: %v", p.id, to.Err))
			break
		}
		for _, kc := range keptConns {
			kc := kc
			ko := r.DoNoHang(fmt.Sprintf("RePing(%d)", kc.id), 60*time.Second, ctx, func() (any, error) {
				if kc.hostSide {
					return plugins.PingConn(hostConns[kc.id].(plugins.GRPCConn), 20*time.Second)
				}
				return s.cmd.Do("reping", fmt.Sprint(kc.id))
			})
			if ko.Hung {
				continue
			}
			if ko.Err != nil {
				if !noisy() {
					r.Violate("earlier-conn-lost", ctx, fmt.Sprintf("brokered connection %d stopped answering after establishing id %d: %v", kc.id, p.id, ko.Err))
				}
			} else if ko.Val.(string) != fmt.Sprintf("id=%d", kc.id) {
				r.Violate("misroute", ctx+" on re-ping", fmt.Sprintf("connection %d answered %q", kc.id, ko.Val))
			}
		}
		// sometimes the dialling side closes an established connection before the next establishment
		if len(keptConns) > 0 && r.Spec.P("fixed", "") != "1" && w.Range("pairs/close", 3) == 1 {
			kc := keptConns[len(keptConns)-1]
			keptConns = keptConns[:len(keptConns)-1]
			w.Probe("mux.closed-before-next")
			if kc.hostSide {
				hostConns[kc.id].Close()
				delete(hostConns, kc.id)
			} else {
				r.DoNoHang("CloseKept", 60*time.Second, ctx, func() (any, error) { return s.cmd.Do("closekept", fmt.Sprint(kc.id)) })
			}
		}
		// time between establishments
		time.Sleep(time.Duration(w.Range("pairs/pause", 3)) * 500 * time.Millisecond)
	}
	for _, c := range hostConns {
		c.Close()
	}
	// re-use of an ID after its listener was closed (server of our own on
	// Broker.Accept, stopped, then accepted again), followed by a fresh ID
	if c.TLS != "auto" && (r.Spec.P("reuse", "") == "1" || (r.Spec.P("fixed", "") != "1" && w.Range("reuse/on", 2) == 1)) && !noisy() {
		hostAccepts := r.Spec.P("reusedir", "") == "h" || (r.Spec.P("reusedir", "") == "" && w.Range("reuse/dir", 2) == 0)
		rid := uint32(1500)
		rctx := fmt.Sprintf("broker=grpcmux%s id-reuse accept-side=%s", lateMark, map[bool]string{true: "host", false: "plugin"}[hostAccepts])
		establish := func(id uint32, round string) bool {
			var stop func()
			if hostAccepts {
				st, err := h.HostAcceptOwn(s.cmd, id)
				if err != nil {
					r.Violate("lost-pair", rctx+" step="+round, fmt.Sprintf("Accept(%d) failed: %v", id, err))
					return false
				}
				stop = st
			} else if _, err := s.cmd.Do("acceptown", fmt.Sprint(id)); err != nil {
				r.Violate("lost-pair", rctx+" step="+round, fmt.Sprintf("plugin Accept(%d) failed: %v", id, err))
				return false
			}
			o := r.Do(fmt.Sprintf("ReuseDial(%d)[%s]", id, round), 60*time.Second, func() (any, error) {
				if hostAccepts {
					return s.cmd.Do("dial", fmt.Sprint(id))
				}
				return h.HostDialPing(s.cmd, id)
			})
			ok := true
			switch {
			case o.Hung:
				r.Violate("hang", "op=Dial "+rctx+" step="+round, "dial never returned")
				ok = false
			case o.Err != nil:
				if !noisy() {
					r.Violate("lost-pair", rctx+" step="+round, fmt.Sprintf("dial of id %d failed: %v", id, o.Err))
				}
				ok = false
			case o.Val.(string) != fmt.Sprintf("id=%d", id):
				r.Violate("misroute", rctx+" step="+round, fmt.Sprintf("id %d answered by %q", id, o.Val))
				ok = false
			}
			// close the listener again
			if hostAccepts {
				// (bounded: a multiplexed listener whose knock was acknowledged but
				// whose stream never came - the dialler gave up in between - sits in
				// session.Accept until the client is closed, and grpc's Stop waits
				// for it. After injected stalls that is the late-peer history of the
				// recorded finding; without them it would be a defect of its own.)
				so := r.Do(fmt.Sprintf("StopOwnServer(%d)", id), 30*time.Second, func() (any, error) { stop(); return nil, nil })
				if so.Hung {
					if noisy() {
						w.Probe("mux.stop-hung-after-stalled-dial")
					} else {
						r.Violate("hang", "op=StopOwnServer "+rctx+" step="+round, "stopping the server of a brokered listener never returned\n"+r.HostStacks("goplugin"))
					}
					return false
				}
			} else {
				s.cmd.Do("stopown", fmt.Sprint(id))
			}
			time.Sleep(50 * time.Millisecond)
			return ok
		}
		if establish(rid, "first") {
			w.Probe("mux.id-reuse")
			establish(rid, "reuse")
			establish(rid+1, "fresh-after-reuse")
		}
		po := r.DoNoHang("Ping(after-reuse)", 60*time.Second, rctx, func() (any, error) { return nil, s.cp.Ping() })
		if po.Err != nil && !noisy() {
			r.Violate("main-conn-lost", rctx, fmt.Sprintf("ping after ID re-use failed: %v", po.Err))
		}
	}
	// an ID accepted again the moment its previous listener is closed (no pause:
	// whatever the previous listener still has to tidy up runs after the new
	// one is registered); with "dc" the previous listener is then closed a
	// second time, as the `defer ln.Close()` after a server's Stop does
	if c.TLS != "auto" && lateMark == "" && !noisy() && (r.Spec.P("reaccept", "") != "" || (r.Spec.P("fixed", "") != "1" && w.Range("reaccept/on", 3) == 0)) {
		mode := r.Spec.P("reaccept", "")
		if mode == "" {
			mode = []string{"h", "p", "hdc", "pdc"}[w.Range("reaccept/mode", 4)]
		}
		hostAccepts := mode[0] == 'h'
		dc := strings.HasSuffix(mode, "dc")
		aid := uint32(1700)
		actx := fmt.Sprintf("broker=grpcmux id-reaccepted-at-once accept-side=%s second-close=%v", map[bool]string{true: "host", false: "plugin"}[hostAccepts], dc)
		dialChk := func(round string) bool {
			o := r.Do(fmt.Sprintf("ReacceptDial(%d)[%s]", aid, round), 60*time.Second, func() (any, error) {
				if hostAccepts {
					return s.cmd.Do("dial", fmt.Sprint(aid))
				}
				return h.HostDialPing(s.cmd, aid)
			})
			switch {
			case o.Hung:
				r.Violate("hang", "op=Dial "+actx+" step="+round, "dial never returned")
			case o.Err != nil:
				if !noisy() {
					r.Violate("lost-pair", actx+" step="+round, fmt.Sprintf("dial of id %d failed: %v", aid, o.Err))
				}
			case o.Val.(string) != fmt.Sprintf("id=%d", aid):
				r.Violate("misroute", actx+" step="+round, fmt.Sprintf("id %d answered by %q", aid, o.Val))
			default:
				return true
			}
			return false
		}
		var stop func()
		var ln0 net.Listener
		var err error
		if hostAccepts {
			stop, ln0, err = h.HostAcceptOwnLn(s.cmd, aid)
		} else {
			_, err = s.cmd.Do("acceptown", fmt.Sprint(aid))
		}
		if err != nil {
			r.Violate("lost-pair", actx+" step=first", fmt.Sprintf("Accept(%d) failed: %v", aid, err))
		} else if dialChk("first") {
			ok := true
			if hostAccepts {
				so := r.Do(fmt.Sprintf("StopOwnServer(%d)", aid), 30*time.Second, func() (any, error) { stop(); return nil, nil })
				if so.Hung {
					r.Violate("hang", "op=StopOwnServer "+actx, "stopping the server of a brokered listener never returned")
					ok = false
				} else if stop, _, err = h.HostAcceptOwnLn(s.cmd, aid); err != nil {
					r.Violate("lost-pair", actx+" step=reaccept", fmt.Sprintf("Accept(%d) failed: %v", aid, err))
					ok = false
				} else if dc {
					ln0.Close()
				}
			} else if _, err := s.cmd.Do("reacceptown", fmt.Sprint(aid)+map[bool]string{true: ":dc", false: ""}[dc]); err != nil {
				r.Violate("lost-pair", actx+" step=reaccept", fmt.Sprintf("plugin: %v", err))
				ok = false
			}
			if ok {
				w.Probe("mux.id-reaccepted-at-once")
				time.Sleep(time.Duration(w.Range("reaccept/wait", 3)) * 50 * time.Millisecond)
				dialChk("reaccepted")
				if hostAccepts {
					r.Do(fmt.Sprintf("StopOwnServer(%d)#2", aid), 30*time.Second, func() (any, error) { stop(); return nil, nil })
				} else {
					s.cmd.Do("stopown", fmt.Sprint(aid))
				}
			}
		}
		po := r.DoNoHang("Ping(after-reaccept)", 60*time.Second, actx, func() (any, error) { return nil, s.cp.Ping() })
		if po.Err != nil && !noisy() {
			r.Violate("main-conn-lost", actx, fmt.Sprintf("ping failed: %v", po.Err))
		}
	}
	// the same NUMBER in use in both directions at once (both brokers count
	// their ids from 1): each side listens on n, and the dials alternate
	if c.TLS != "auto" && lateMark == "" && !noisy() && (r.Spec.P("samenum", "") != "" || (r.Spec.P("fixed", "") != "1" && w.Range("samenum/on", 4) == 0)) {
		n := uint32(2100)
		nctx := "broker=grpcmux same-number-both-directions"
		hstop, herr := h.HostAcceptOwn(s.cmd, n)
		_, perr := s.cmd.Do("acceptown", fmt.Sprint(n))
		if herr != nil || perr != nil {
			r.Violate("lost-pair", nctx+" step=accept", fmt.Sprint(herr, perr))
		} else {
			order := []bool{true, false, true, false, false, true}
			if w.Range("samenum/first", 2) == 1 {
				order = []bool{false, true, false, true, true, false}
			}
			for i, hostDials := range order {
				o := r.Do(fmt.Sprintf("SameNumberDial(%d)#%d", n, i), 60*time.Second, func() (any, error) {
					if hostDials {
						return h.HostDialPing(s.cmd, n)
					}
					return s.cmd.Do("dial", fmt.Sprint(n))
				})
				step := fmt.Sprintf("dial#%d-by-%s", i, map[bool]string{true: "host", false: "plugin"}[hostDials])
				if o.Hung {
					r.Violate("hang", "op=Dial "+nctx+" "+step, "dial never returned")
					break
				} else if o.Err != nil {
					if !noisy() {
						r.Violate("lost-pair", nctx+" "+step, fmt.Sprintf("both sides listen on id %d; this dial failed: %v", n, o.Err))
					}
					break
				} else if o.Val.(string) != fmt.Sprintf("id=%d", n) {
					r.Violate("misroute", nctx+" "+step, fmt.Sprint(o.Val))
				}
			}
			w.Probe("mux.same-number-both-directions")
			r.Do("StopOwnServer(samenum)", 30*time.Second, func() (any, error) { hstop(); return nil, nil })
			s.cmd.Do("stopown", fmt.Sprint(n))
		}
	}
	// the SAME listener dialled a second time (a second connection to the same
	// brokered server) about as long after the first as the broker keeps the
	// first dial's acknowledgement entry (5 s)
	if c.TLS != "auto" && lateMark == "" && !noisy() && (r.Spec.P("redial", "") != "" || (r.Spec.P("fixed", "") != "1" && w.Range("redial/on", 4) == 0)) {
		hostAccepts := r.Spec.P("redial", "") == "h" || (r.Spec.P("redial", "") == "" && w.Range("redial/dir", 2) == 0)
		did := uint32(1900)
		dctx := fmt.Sprintf("broker=grpcmux same-listener-dialled-again accept-side=%s", map[bool]string{true: "host", false: "plugin"}[hostAccepts])
		var stop func()
		var err error
		if hostAccepts {
			stop, err = h.HostAcceptOwn(s.cmd, did)
		} else {
			_, err = s.cmd.Do("acceptown", fmt.Sprint(did))
		}
		if err != nil {
			r.Violate("lost-pair", dctx+" step=accept", fmt.Sprintf("Accept(%d) failed: %v", did, err))
		} else {
			dialChk := func(round string) bool {
				i0 := w.InjectedTotal()
				o := r.Do(fmt.Sprintf("SameListenerDial(%d)[%s]", did, round), 60*time.Second, func() (any, error) {
					if hostAccepts {
						return s.cmd.Do("dial", fmt.Sprint(did))
					}
					return h.HostDialPing(s.cmd, did)
				})
				switch {
				case o.Hung:
					r.Violate("hang", "op=Dial "+dctx+" step="+round, "dial never returned")
				case o.Err != nil:
					if w.InjectedTotal()-i0 < 2*time.Second {
						r.Violate("lost-pair", dctx+" step="+round, fmt.Sprintf("dial of id %d failed: %v", did, o.Err))
					}
				case o.Val.(string) != fmt.Sprintf("id=%d", did):
					r.Violate("misroute", dctx+" step="+round, fmt.Sprintf("id %d answered by %q", did, o.Val))
				default:
					return true
				}
				return false
			}
			if dialChk("first") {
				gap := 5*time.Second + time.Duration(w.Range("redial/gap", 9)-4)*500*time.Microsecond
				if w.Range("redial/far", 4) == 0 {
					gap = time.Duration(1+w.Range("redial/gapfar", 9)) * time.Second
				}
				time.Sleep(gap)
				w.Probe("mux.same-listener-dialled-again")
				if dialChk("second") {
					time.Sleep(5 * time.Second)
					dialChk("third")
				}
			}
			if hostAccepts {
				r.Do(fmt.Sprintf("StopOwnServer(%d)", did), 30*time.Second, func() (any, error) { stop(); return nil, nil })
			} else {
				s.cmd.Do("stopown", fmt.Sprint(did))
			}
		}
	}
	// a dialler that keeps its connection object while the accepting side stops
	// its server: gRPC re-dials by itself (a knock every ~6 s for an ID nobody
	// listens on any more); later establishments must not suffer
	if c.TLS != "auto" && lateMark == "" && !noisy() && (r.Spec.P("stale", "") != "" || (r.Spec.P("fixed", "") != "1" && w.Range("stale/on", 4) == 0)) {
		hostAccepts := r.Spec.P("stale", "") == "h" || (r.Spec.P("stale", "") == "" && w.Range("stale/dir", 2) == 0)
		sid := uint32(1600)
		sctx := fmt.Sprintf("broker=grpcmux stale-dialler accept-side=%s", map[bool]string{true: "host", false: "plugin"}[hostAccepts])
		var stop func()
		okSetup := true
		if hostAccepts {
			st, err := h.HostAcceptOwn(s.cmd, sid)
			if err != nil {
				okSetup = false
			}
			stop = st
		} else if _, err := s.cmd.Do("acceptown", fmt.Sprint(sid)); err != nil {
			okSetup = false
		} else {
			stop = func() { s.cmd.Do("stopown", fmt.Sprint(sid)) }
		}
		var keep interface{ Close() error }
		if okSetup {
			o := r.Do(fmt.Sprintf("KeepDial(%d)", sid), 60*time.Second, func() (any, error) {
				if hostAccepts {
					return s.cmd.Do("dialkeep", fmt.Sprint(sid))
				}
				conn, err := gc.Broker.Dial(sid)
				if err != nil {
					return "", err
				}
				keep = conn
				return plugins.PingConn(conn, 20*time.Second)
			})
			okSetup = !o.Hung && o.Err == nil
		}
		if okSetup {
			w.Probe("mux.stale-dialler")
			r.Do(fmt.Sprintf("StopOwnServer(%d)", sid), 30*time.Second, func() (any, error) { stop(); return nil, nil })
			// a call on the kept connection: gRPC re-dials for it, again and again
			// (knock, 5 s without an answer, back-off, knock ...), until the call gives up
			for i := 0; i < 3; i++ {
				r.Do(fmt.Sprintf("CallOnStale(%d)#%d", sid, i), 60*time.Second, func() (any, error) {
					if keep != nil {
						return plugins.PingConn(keep.(plugins.GRPCConn), 14*time.Second)
					}
					return s.cmd.Do("reping", fmt.Sprint(sid))
				})
				time.Sleep(1500 * time.Millisecond)
			}
			for _, hd := range []bool{true, false} {
				fid := sid + 10 + uint32(b2i(hd))
				if hd {
					s.cmd.Do("accept", fmt.Sprint(fid))
				} else {
					h.HostAccept(r, s.cmd, fid)
				}
				o := r.Do(fmt.Sprintf("FreshDial(%d)", fid), 60*time.Second, func() (any, error) {
					if hd {
						return h.HostDialPing(s.cmd, fid)
					}
					return s.cmd.Do("dial", fmt.Sprint(fid))
				})
				dctx := sctx + " later-establishment=" + map[bool]string{true: "host->plugin", false: "plugin->host"}[hd]
				switch {
				case o.Hung:
					r.Violate("hang", "op=Dial "+dctx, "dial never returned")
				case o.Err != nil:
					if !noisy() {
						r.Violate("lost-pair", dctx, fmt.Sprintf("an establishment issued after a dialler kept re-dialling a closed listener failed: %v", o.Err))
					}
				case o.Val.(string) != fmt.Sprintf("id=%d", fid):
					r.Violate("misroute", dctx, fmt.Sprintf("id %d answered by %q", fid, o.Val))
				}
			}
			if keep != nil {
				keep.Close()
			} else {
				s.cmd.Do("closekept", fmt.Sprint(sid))
			}
		}
	}
	s.kill()
}
