package props

import (
	"fmt"
	"strings"
	"sync"
	"time"

	"simworld/h"
	"simworld/k"
	"simworld/plugins"
)

// C18: graceful shutdown leaves no sockets, temp directories or goroutines behind.

func init() {
	Register(&Prop{ID: "C18",
		Meta: Meta{Stages: 2, Level: "exploration",
			Rule:       "real Client+Serve with a cooperative plugin; a drawn history of 0-6 steps from {dispense, call, brokered connection host->plugin, brokered connection plugin->host, stdio write, ping, streaming call} x protocol {net/rpc, gRPC, gRPC+mux} x TLS {none, AutoMTLS} x launch {command, custom runner, custom runner with address translation} x UnixSocketConfig {none, empty, own TempDir} x {Unix sockets, TCP listeners of a Windows-style plugin, and host}; every configuration with the empty and the full history enumerated, seeded histories and schedule noise in the shutdown paths on top; plus Kill RACING an operation in flight, systematically: stage 0 profiles every go-plugin statement a host goroutine passes during {host Accept, brokered pair in both directions, Dispense, call, Ping, unmatched Dial}, stage 1 runs one case per (statement, occurrence) in which another goroutine calls Kill exactly while the operation is at that statement; plus TWO hosts (the launching and a reattached one) Kill the same gRPC plugin 0-600 us apart while it holds three brokered listeners. Oracle after Kill returned and the plugin exited by itself: the file system holds no socket file or directory created by the host or the plugin process that was not there before (main listener, brokered listeners on both sides, the runner's plugin-dir*), and 10 simulated seconds later no goroutine labelled with the host process is inside a go-plugin function, and the host holds no bound listener (Unix or TCP) any more",
			Exhaustive: "protocol x TLS x launch x {empty history, full history}"},
		Plan: func(tier string, seed uint64, stage int, prev []*h.Result) []*k.Spec {
			if stage > 0 {
				if tier == "selftest" {
					return nil
				}
				return killRaceSpecs("C18", tier, seed, stage, prev)
			}
			var confs []map[string]string
			for _, c := range c03Confs {
				for _, l := range []map[string]string{P("launch", "cmd"), P("launch", "runner"), P("launch", "runner", "xlate", "1")} {
					confs = append(confs, cp(c, "launch", l["launch"], "xlate", l["xlate"]))
					if l["xlate"] == "" {
						// the host was given a UnixSocketConfig (with and without a directory of its own)
						confs = append(confs, cp(c, "launch", l["launch"], "usc", []string{"empty", "tmpdir"}[len(confs)%2]))
					}
				}
			}
			if tier == "selftest" {
				return seeded("C18", seed, 4, func(i int, sd uint64) *k.Spec {
					return &k.Spec{Params: cp(confs[int(k.H(sd, "c", 0)%uint64(len(confs)))], "hist", "full")}
				})
			}
			out := killRaceSpecs("C18", tier, seed, 0, nil)
			for _, c := range confs {
				for _, hist := range []string{"empty", "full", "noclient", "concclient"} {
					out = append(out, sp("C18", fmt.Sprintf("cell/%s/%s%s/%s", confLabel(c), c["launch"], c["xlate"]+c["usc"], hist), seed, cp(c, "hist", hist)))
				}
			}
			// Windows-style processes: TCP listeners, main and brokered
			for _, c := range c03Confs {
				for _, l := range []map[string]string{P("launch", "cmd"), P("launch", "runner"), P("launch", "runner", "xlate", "1")} {
					for _, hg := range []string{"", "windows"} {
						for _, hist := range []string{"full", "empty"} {
							out = append(out, sp("C18", fmt.Sprintf("tcp/%s/%s%s/host%s/%s", confLabel(c), l["launch"], l["xlate"], hg, hist), seed, cp(c, "launch", l["launch"], "xlate", l["xlate"], "hist", hist, "pgoos", "windows", "hgoos", hg)))
						}
					}
				}
			}
			// two hosts (the launching one and a reattached one) shut the same gRPC
			// plugin down at the same moment while it still holds brokered listeners
			nt := 30
			if tier == "thorough" {
				nt = 1500
			}
			for v := 0; v < nt; v++ {
				s := sp("C18", fmt.Sprintf("two-hosts-kill/%d", v), seed+uint64(v+1)*7919, P("proto", "grpc", "launch", "cmd", "hist", "twohosts"))
				if v >= 4 {
					s.HotPermille, s.DelayClass = 150, "tiny"
					s.Focus = "GRPCServer.Stop,GRPCServer.closeBroker,GRPCBroker.Close,grpc_controller.go"
					s.Wake = []int{0, 300, 900}[v%3]
				}
				out = append(out, s)
			}
			n := 500
			if tier == "thorough" {
				n = 100000
			}
			out = append(out, seeded("C18", seed, n, func(i int, sd uint64) *k.Spec {
				s := &k.Spec{Seed: sd, Params: cp(confs[int(k.H(sd, "c", 0)%uint64(len(confs)))], "hist", "random")}
				swarm(s, "client.go:Client.Kill,grpc_client.go:GRPCClient.Close,rpc_client.go:RPCClient.Close,grpc_server.go:GRPCServer.Stop,grpc_broker.go:GRPCBroker.AcceptAndServe,grpc_broker.go:GRPCBroker.Close,server.go:Serve,grpcmux/")
				if s.DelayClass == "big" || s.DelayClass == "mid" {
					s.DelayClass = "tiny"
				}
				return s
			})...)
			return out
		},
		Run: runC18,
	})
}

func runC18(r *h.Run) {
	if r.Spec.P("killrace", "") != "" {
		runKillRace(r, "C18")
		return
	}
	w := r.W
	c := r.ConfFromParams()
	c.Translate = r.Spec.P("xlate", "") == "1"
	ctx := "conf=" + c.String()
	if c.USC == "tmpdir" {
		w.Mkdir("/run")
		w.Mkdir("/run/hostsock")
	}
	before := map[string]bool{}
	for _, p := range w.Paths() {
		before[p] = true
	}
	hist := r.Spec.P("hist", "full")
	var s *session
	if hist == "noclient" {
		// started but never connected
		r.InstallPlugin(&c)
		s = &session{r: r, c: c, name: c.String()}
		s.cl = r.NewClient(c)
		if o := r.DoNoHang("Start", 90*time.Second, ctx, func() (any, error) { return s.cl.Start() }); o.Err != nil || o.Hung {
			r.Violate("setup", "start "+ctx, fmt.Sprint(o.Err))
			return
		}
	} else if hist == "concclient" {
		// the first Client() calls of two host goroutines overlap (one dispenses, one health-checks)
		r.InstallPlugin(&c)
		s = &session{r: r, c: c, name: c.String()}
		s.cl = r.NewClient(c)
		var wg sync.WaitGroup
		for g := 0; g < 2; g++ {
			wg.Add(1)
			go k.Trap(func() {
				defer wg.Done()
				r.DoNoHang("Client", 90*time.Second, ctx, func() (any, error) {
					cp, err := s.cl.Client()
					if err == nil {
						err = cp.Ping()
					}
					return nil, err
				})
			})
		}
		wg.Wait()
		o := r.DoNoHang("Client+Dispense", 90*time.Second, ctx, func() (any, error) {
			cp, err := s.cl.Client()
			if err != nil {
				return nil, err
			}
			s.cp = cp
			return cp.Dispense(h.PluginName)
		})
		if o.Err != nil || o.Hung {
			r.Violate("setup", "concurrent first Client "+ctx, fmt.Sprint(o.Err))
			return
		}
		s.cmd = o.Val.(plugins.Cmd)
	} else {
		s = open(r, c)
		if s == nil {
			return
		}
	}
	steps := []string{}
	switch hist {
	case "full":
		steps = []string{"dispense", "call", "h2p", "p2h", "stdio", "ping", "stream", "h2p", "p2h", "acceptonly", "acceptonly", "acceptonly", "hostacceptonly", "hostacceptonly"}
	case "twohosts":
		steps = []string{"acceptonly", "acceptonly", "acceptonly", "h2p", "call"}
	case "random":
		all := []string{"dispense", "call", "h2p", "p2h", "stdio", "ping", "stream", "acceptonly", "hostacceptonly"}
		n := w.Range("steps/n", 9)
		for i := 0; i < n; i++ {
			steps = append(steps, all[w.Range("steps/kind", len(all))])
		}
	}
	id := uint32(3000)
	for _, st := range steps {
		var o h.Outcome
		switch st {
		case "dispense":
			o = r.DoNoHang("Dispense", 60*time.Second, ctx, func() (any, error) { return s.cp.Dispense(h.PluginName) })
		case "call":
			o = r.DoNoHang("Do(tag)", 60*time.Second, ctx, func() (any, error) { return s.cmd.Do("tag", "") })
		case "h2p":
			id++
			i := id
			s.cmd.Do("accept", fmt.Sprint(i))
			o = r.DoNoHang("HostDial", 60*time.Second, ctx, func() (any, error) { return h.HostDialEcho(s.cmd, i, 100) })
		case "p2h":
			id++
			i := id
			h.HostAccept(r, s.cmd, i)
			o = r.DoNoHang("PluginDial", 60*time.Second, ctx, func() (any, error) { return s.cmd.Do("dial", fmt.Sprint(i)) })
		case "acceptonly":
			// a brokered listener on the plugin side that stays open until shutdown
			if _, ok := s.cmd.(*plugins.GRPCClient); ok && !c.Mux {
				id++
				i := id
				o = r.DoNoHang("AcceptOnly", 60*time.Second, ctx, func() (any, error) { return s.cmd.Do("acceptonly", fmt.Sprint(i)) })
			}
		case "hostacceptonly":
			if gc, ok := s.cmd.(*plugins.GRPCClient); ok && !c.Mux {
				id++
				i := id
				o = r.DoNoHang("HostAcceptOnly", 60*time.Second, ctx, func() (any, error) { _, err := gc.Broker.Accept(i); return nil, err })
			}
		case "stdio":
			o = r.DoNoHang("Stdio", 60*time.Second, ctx, func() (any, error) { return s.cmd.Do("stdout", "6869") })
		case "ping":
			o = r.DoNoHang("Ping", 60*time.Second, ctx, func() (any, error) { return nil, s.cp.Ping() })
		case "stream":
			if gc, ok := s.cmd.(*plugins.GRPCClient); ok {
				o = r.DoNoHang("Stream", 60*time.Second, ctx, func() (any, error) { return nil, gc.StreamN(gc.Ctx, 2) })
			}
		}
		if o.Err != nil && w.InjectedTotal() < 2*time.Second {
			r.Violate("setup", fmt.Sprintf("step %s failed %s", st, ctx), o.Err.Error())
		}
	}
	plug := w.ProcByName("plugin")
	if hist == "twohosts" {
		rc := s.cl.ReattachConfig()
		if rc == nil {
			r.Violate("setup", "no reattach config "+ctx, "")
			return
		}
		b := reattachClient(r, c.Proto, rc, "hostB")
		if o := r.DoNoHang("B.Client", 60*time.Second, ctx, func() (any, error) { return b.Client() }); o.Err != nil || o.Hung {
			r.Violate("setup", "second host "+ctx, fmt.Sprint(o.Err))
			return
		}
		var wg sync.WaitGroup
		wg.Add(1)
		go k.Trap(func() {
			defer wg.Done()
			r.DoNoHang("B.Kill", 120*time.Second, ctx, func() (any, error) { b.Kill(); return nil, nil })
		})
		time.Sleep(time.Duration(w.Range("twohosts/offset", 4)) * 200 * time.Microsecond)
		s.kill()
		wg.Wait()
	} else {
		s.kill()
	}
	time.Sleep(10 * time.Second)
	if plug != nil && plug.GotKill {
		// not a graceful exit: the property does not apply (C04 judges whether it should have been)
		w.Probe("not-graceful")
		return
	}
	w.Probe("graceful")
	var left []string
	for _, p := range w.Paths() {
		if before[p] {
			continue
		}
		n := w.NodeAt(p)
		if n == nil || (n.Creator != "host" && n.Creator != "plugin") {
			continue
		}
		if n.Kind == k.KSocket || n.Kind == k.KDir {
			kind := "socket"
			if n.Kind == k.KDir {
				kind = "directory"
			}
			role := "brokered-or-other"
			if a, ok := clAddr(s.cl); ok && (strings.HasSuffix(p, a) || strings.HasSuffix(a, pathBase(p))) {
				role = "main-listener"
			}
			if strings.Contains(p, "plugin-dir") && n.Kind == k.KDir {
				role = "runner-socket-dir"
			}
			left = append(left, fmt.Sprintf("%s %s (%s, created by %s)", kind, p, role, n.Creator))
			r.Violate("file-left-behind", fmt.Sprintf("%s kind=%s role=%s creator=%s", ctx, kind, role, n.Creator), strings.Join(left, "\n"))
		}
	}
	// a listener still bound (TCP listeners leave no file behind to give them away)
	for _, l := range w.Listeners() {
		if l.Owner() != nil && l.Owner().Name == "host" && !l.IsClosed() {
			r.Violate("listener-left-open", fmt.Sprintf("%s network=%s owner=host", ctx, l.Network), fmt.Sprintf("the host still listens on %s|%s after Kill (a brokered listener go-plugin handed out and did not close)", l.Network, l.Address))
		}
	}
	if leaks := r.HostStacks("simworld/goplugin"); leaks != "" {
		fn := leakFunc(leaks)
		r.Violate("goroutine-leak", fmt.Sprintf("%s in=%s", ctx, fn), leaks)
	}
	// a connection object go-plugin built and never closed keeps goroutines of
	// the RPC library alive instead
	if leaks := r.HostStacks("google.golang.org/grpc"); leaks != "" {
		r.Violate("goroutine-leak", ctx+" in=grpc-go (a gRPC connection go-plugin created was never closed)", leaks)
	}
	if leaks := r.HostStacks("hashicorp/yamux"); leaks != "" {
		r.Violate("goroutine-leak", ctx+" in=yamux (a yamux session go-plugin created was never closed)", leaks)
	}
}

func pathBase(p string) string {
	if i := strings.LastIndex(p, "/"); i >= 0 {
		return p[i+1:]
	}
	return p
}

// leakFunc names the innermost go-plugin function of the first leaked goroutine.
func leakFunc(stacks string) string {
	for _, l := range strings.Split(stacks, "\n") {
		if i := strings.Index(l, "simworld/goplugin"); i >= 0 {
			f := l[i+len("simworld/goplugin"):]
			if j := strings.IndexAny(f, "+ \t"); j > 0 {
				f = f[:j]
			}
			return strings.TrimPrefix(f, ".")
		}
	}
	return "?"
}
