package props

import (
	"crypto/ecdsa"
	"crypto/elliptic"
	"crypto/rand"
	"crypto/tls"
	"crypto/x509"
	"crypto/x509/pkix"
	"encoding/base64"
	"errors"
	"fmt"
	"math/big"
	"net"
	"net/netip"
	"reflect"
	"strconv"
	"strings"
	"time"

	plugin "simworld/goplugin"
	"simworld/h"
	"simworld/k"
	"simworld/plugins"
	"simworld/shim/simexec"
)

// ---- handshake line generator ---------------------------------------------------------

// field value classes; index 0 is always "the valid value for this configuration"
var hsFieldClasses = [7][]string{
	{"<ok>", "", "0", "2", "x", "-1", "1 ", " 1", "+1", "01", "1.0", "99999999999999999999", "0x1"},
	{"<ok>", "<unoffered>", "", "x", "-1", " <ok>", "<ok> ", "0<ok>", "99999999999999999999", "+<ok>"},
	{"<ok>", "tcp", "", "udp", "unixgram", "UNIX", "tcp4", "unix ", "x"},
	{"<ok>", "", "/nonexistent/sock", "127.0.0.1:1", "localhost:99999", "nohost.invalid:80", "127.0.0.1", ":0", "[::1]:80", "a\x00b", "999.1.1.1:5", "127.0.0.1:http", "[::1]:4321", "[fe80::1%lo]:80", "127.0.0.1:", "[::ffff:127.0.0.1]:77", "127.0.0.1:65536", "127.0.0.1:-1"},
	{"<ok>", "netrpc", "grpc", "", "GRPC", "http", "grpc ", "netrpc\t"},
	{"<ok>", "", "shortjunk", strings.Repeat("!", 60), "<b64junk>", "{CERT}", "{CERT}AAAA", " {CERT}"},
	{"<ok>", "<absent>", "true", "false", "", "1", "0", "yes", "TRUE", "t", "f", "tru"},
}

type hsConf struct {
	Allowed  string // "" (nil) | netrpc | grpc | netrpc,grpc
	Versions string // e.g. "1" or "1,2"
	Legacy   bool   // use ProtocolVersion+Plugins instead of VersionedPlugins
	TLS      string // none | static | auto
	Mux      bool
}

func (c hsConf) params() map[string]string {
	return P("allowed", c.Allowed, "versions", c.Versions, "legacy", b2s(c.Legacy), "tls", c.TLS, "mux", b2s(c.Mux))
}

func b2s(b bool) string {
	if b {
		return "1"
	}
	return "0"
}

func hsConfFrom(s *k.Spec) hsConf {
	return hsConf{Allowed: s.P("allowed", "netrpc,grpc"), Versions: s.P("versions", "1"), Legacy: s.P("legacy", "0") == "1", TLS: s.P("tls", "none"), Mux: s.P("mux", "0") == "1"}
}

func hsConfs(all bool) []hsConf {
	var out []hsConf
	for _, al := range []string{"", "netrpc", "grpc", "netrpc,grpc"} {
		for _, vs := range []struct {
			v string
			l bool
		}{{"1", true}, {"1,2", false}, {"2,3", false}, {"0", true}} {
			for _, t := range []string{"none", "static", "auto", "staticroots"} {
				for _, m := range []bool{false, true} {
					out = append(out, hsConf{al, vs.v, vs.l, t, m})
				}
			}
		}
	}
	if all {
		return out
	}
	// a covering subset of 8
	pick := []int{0, 13, 27, 38, 52, 65, 79, 95}
	var sub []hsConf
	for _, i := range pick {
		sub = append(sub, out[i%len(out)])
	}
	sub = append(sub, hsConf{"netrpc,grpc", "1", true, "staticroots", false}, hsConf{"grpc", "1,2", false, "staticroots", true})
	return sub
}

// validFields returns the line fields a well-behaved plugin would send to a
// client with configuration c (protocol = the first allowed one).
func validFields(c hsConf) []string {
	proto := "netrpc"
	if c.Allowed == "grpc" || c.Allowed == "netrpc,grpc" {
		proto = "grpc"
	}
	ver := strings.Split(c.Versions, ",")[0]
	cert := ""
	if c.TLS == "auto" {
		cert = "{CERT}"
	}
	f := []string{"1", ver, "unix", "{ADDR}", proto, cert}
	if c.Mux {
		f = append(f, "true")
	}
	return f
}

func substClass(c hsConf, field int, class string) (val string, absent bool) {
	ok := validFields(c)
	okv := ""
	if field < len(ok) {
		okv = ok[field]
	} else if field == 6 {
		okv = "true"
	}
	switch class {
	case "<ok>":
		return okv, field >= len(ok)
	case "<absent>":
		return "", true
	case "<unoffered>":
		return "7", false
	case "<b64junk>":
		return base64.RawStdEncoding.EncodeToString([]byte(strings.Repeat("not a certificate ", 5))), false
	}
	return strings.ReplaceAll(class, "<ok>", okv), false
}

// buildLine joins fields; classes[i] selects the class of field i.
func buildLine(c hsConf, classes [7]int) string {
	var fields []string
	for i := 0; i < 7; i++ {
		v, absent := substClass(c, i, hsFieldClasses[i][classes[i]%len(hsFieldClasses[i])])
		if absent && i == 6 {
			break
		}
		fields = append(fields, v)
	}
	return strings.Join(fields, "|")
}

var hsShapes = []string{"<line>\n", "<line>\r\n", "<line>", "\n<line>\n", "  <line>  \n", "<line>|extra|more\n", "<trunc3>\n", "<trunc2>\n", "<trunc1>\n", "\n", "", "garbage without separators\n", "|||||\n", "<line>\n<line>\n", "\x00\xff\xfe<line>\n", "<long>\n"}

func shapeLine(shape, line string) string {
	parts := strings.Split(line, "|")
	tr := func(n int) string {
		if len(parts) < n {
			return line
		}
		return strings.Join(parts[:n], "|")
	}
	s := strings.ReplaceAll(shape, "<line>", line)
	s = strings.ReplaceAll(s, "<trunc3>", tr(3))
	s = strings.ReplaceAll(s, "<trunc2>", tr(2))
	s = strings.ReplaceAll(s, "<trunc1>", tr(1))
	s = strings.ReplaceAll(s, "<long>", line+"|{LONG70000}") // expanded in the worker, keeps plans small
	return s
}

// ---- reference reading of a handshake line ----------------------------------------------

type hsReading struct {
	ok       bool
	why      string
	version  int
	network  string
	address  string
	protocol string
}

// readLine is the reference model, written from the property statement: what a
// line must look like for Start to be *allowed* to succeed, and what the client
// must then report.
func readLine(c hsConf, raw string, certOK func(string) bool) hsReading {
	// first line only
	line := raw
	if i := strings.IndexByte(line, '\n'); i >= 0 {
		line = line[:i]
	}
	line = strings.TrimSpace(line)
	parts := strings.Split(line, "|")
	if len(parts) < 4 {
		return hsReading{why: "fewer than four fields"}
	}
	if core, err := strconv.Atoi(parts[0]); err != nil || core != 1 {
		return hsReading{why: "core protocol version is not 1"}
	}
	ver, err := strconv.Atoi(parts[1])
	if err != nil {
		return hsReading{why: "application version is not a number"}
	}
	offered := false
	for _, v := range strings.Split(c.Versions, ",") {
		if n, _ := strconv.Atoi(v); n == ver {
			offered = true
		}
	}
	if !offered {
		return hsReading{why: "application version not offered"}
	}
	switch parts[2] {
	case "unix":
	case "tcp":
		host, port, err := net.SplitHostPort(parts[3])
		if err != nil {
			return hsReading{why: "tcp address does not resolve"}
		}
		if pn, err := strconv.Atoi(port); err != nil || pn < 0 || pn > 65535 {
			return hsReading{why: "tcp port does not resolve"}
		}
		if host != "" && host != "localhost" && net.ParseIP(host) == nil {
			return hsReading{why: "tcp host does not resolve"}
		}
	default:
		return hsReading{why: "network is neither tcp nor unix"}
	}
	proto := "netrpc"
	if len(parts) >= 5 {
		proto = parts[4]
	}
	allowed := c.Allowed
	if allowed == "" {
		allowed = "netrpc"
	}
	found := false
	for _, a := range strings.Split(allowed, ",") {
		if a == proto {
			found = true
		}
	}
	if !found {
		return hsReading{why: "protocol not in the allowed list"}
	}
	if len(parts) >= 6 && len(parts[5]) > 50 {
		if !certOK(parts[5]) {
			return hsReading{why: "certificate does not parse"}
		}
		if c.TLS == "none" {
			return hsReading{why: "certificate sent to a client without TLS configuration"}
		}
	}
	if c.Mux && proto == "grpc" {
		if len(parts) < 7 {
			return hsReading{why: "multiplexing requested but not advertised"}
		}
		if b, err := strconv.ParseBool(parts[6]); err != nil || !b {
			return hsReading{why: "multiplexing requested but flag is not true"}
		}
	}
	return hsReading{ok: true, version: ver, network: parts[2], address: parts[3], protocol: proto}
}

// ---- running one handshake case ------------------------------------------------------------

func genCertB64() string {
	key, _ := ecdsa.GenerateKey(elliptic.P256(), rand.Reader)
	tmpl := &x509.Certificate{SerialNumber: big.NewInt(42), Subject: pkix.Name{CommonName: "localhost"}, DNSNames: []string{"localhost"},
		NotBefore: time.Now().Add(-time.Minute), NotAfter: time.Now().Add(time.Hour), IsCA: true, BasicConstraintsValid: true,
		KeyUsage: x509.KeyUsageDigitalSignature | x509.KeyUsageCertSign}
	der, _ := x509.CreateCertificate(rand.Reader, tmpl, tmpl, key.Public(), key)
	return base64.RawStdEncoding.EncodeToString(der)
}

func certParses(s string) bool {
	der, err := base64.RawStdEncoding.DecodeString(s)
	if err != nil {
		return false
	}
	_, err = x509.ParseCertificate(der)
	return err == nil
}

func isNilAddr(a net.Addr) bool {
	if a == nil {
		return true
	}
	v := reflect.ValueOf(a)
	return v.Kind() == reflect.Ptr && v.IsNil()
}

// hsClientConfig builds the client for a handshake configuration.
func hsClientConfig(r *h.Run, c hsConf, path, launch string, timeout time.Duration) *plugin.ClientConfig {
	cfg := &plugin.ClientConfig{
		HandshakeConfig:     plugins.Handshake,
		Logger:              r.Logger("host"),
		StartTimeout:        timeout,
		AutoMTLS:            c.TLS == "auto",
		GRPCBrokerMultiplex: c.Mux,
	}
	cfg.HandshakeConfig.ProtocolVersion = 0
	if c.Allowed != "" {
		for _, a := range strings.Split(c.Allowed, ",") {
			cfg.AllowedProtocols = append(cfg.AllowedProtocols, plugin.Protocol(a))
		}
	}
	set := plugin.PluginSet{h.PluginName: &plugins.GRPC{Sh: plugins.NewShared("host")}}
	if c.Legacy {
		v, _ := strconv.Atoi(c.Versions)
		cfg.HandshakeConfig.ProtocolVersion = uint(v)
		cfg.Plugins = set
	} else {
		cfg.VersionedPlugins = map[int]plugin.PluginSet{}
		for _, v := range strings.Split(c.Versions, ",") {
			n, _ := strconv.Atoi(v)
			cfg.VersionedPlugins[n] = set
		}
	}
	if c.TLS == "static" {
		cfg.TLSConfig = &tls.Config{InsecureSkipVerify: true, MinVersion: tls.VersionTLS12}
	}
	if c.TLS == "staticroots" {
		// a static configuration that brings root certificates of its own
		pool := x509.NewCertPool()
		certPEM, _ := h.SelfSignedPEM()
		pool.AppendCertsFromPEM(certPEM)
		cfg.TLSConfig = &tls.Config{RootCAs: pool, ServerName: "localhost", MinVersion: tls.VersionTLS12}
	}
	if launch == "runner" {
		conf := h.Conf{Path: path, Name: "plugin", Launch: "runner"}
		cfg.RunnerFunc = r.ClientConfig(conf).RunnerFunc
		if r.Spec.P("usc", "") == "empty" {
			cfg.UnixSocketConfig = &plugin.UnixSocketConfig{}
		}
	} else {
		cmd := simexec.Command(path)
		cmd.SimName = "plugin"
		cfg.Cmd = cmd
	}
	return cfg
}

const hsTimeout = 10 * time.Second

// runHandshake executes one scripted-plugin start and applies the C01 oracle
// (strict=false: only the C05 part - failed starts leave nothing behind).
func runHandshake(r *h.Run, prop string) {
	w := r.W
	c := hsConfFrom(r.Spec)
	raw, _ := base64.StdEncoding.DecodeString(r.Spec.P("out", ""))
	text := string(raw)
	text = strings.ReplaceAll(text, "{LONG70000}", strings.Repeat("z", 70000))
	text = strings.ReplaceAll(text, "{PAD5000}", strings.Repeat("x", 5000))
	text = strings.ReplaceAll(text, "{PAD100}", strings.Repeat("x", 100))
	cert := ""
	if strings.Contains(text, "{CERT}") {
		cert = genCertB64()
		text = strings.ReplaceAll(text, "{CERT}", cert)
	}
	listen := r.Spec.P("listen", "unix")
	step := h.Out(text)
	step.DelayNS = int64(parseDur(r.Spec.P("delay", "0")))
	step.Chunk = r.Spec.PI("chunk", 0)
	step.GapNS = int64(parseDur(r.Spec.P("gap", "0")))
	sc := &h.Script{Listen: listen, End: r.Spec.P("end", "stay")}
	holder := parseDur(r.Spec.P("holder", "0"))
	sc.HolderNS = int64(holder)
	if e := r.Spec.P("errtext", ""); e != "" {
		sc.Steps = append(sc.Steps, h.Err(e))
	}
	if text != "" || step.DelayNS > 0 {
		sc.Steps = append(sc.Steps, step)
	}
	st := r.InstallScript("/bin/scripted", sc)
	launch := r.Spec.P("launch", "cmd")
	cl := plugin.NewClient(hsClientConfig(r, c, "/bin/scripted", launch, hsTimeout))
	ctx := fmt.Sprintf("launch=%s", launch)
	if holder > 0 {
		ctx += " pipes-held-by-a-descendant"
	}

	o := r.Do("Start", hsTimeout+30*time.Second, func() (any, error) {
		a, err := cl.Start()
		return a, err
	})
	startReturned := w.Now()
	if o.Hung {
		r.Violate("hang", "op=Start "+ctx, fmt.Sprintf("Start still outstanding %v after launch (StartTimeout %v)\n%s", o.Took, hsTimeout, r.HostStacks("goplugin")))
		return
	}
	if o.Took > hsTimeout+o.Inject+time.Second {
		r.Violate("slow-start", ctx, fmt.Sprintf("Start took %v with StartTimeout %v", o.Took, hsTimeout))
	}
	// the line as the plugin really wrote it
	actual := strings.ReplaceAll(strings.ReplaceAll(text, "{ADDR}", st.Addr), "{NET}", st.Net)
	rd := readLine(c, actual, certParses)
	var addr net.Addr
	if o.Val != nil {
		addr, _ = o.Val.(net.Addr)
	}
	proc := w.ProcByName("plugin")
	if o.Err == nil {
		w.Probe("start.ok")
		switch {
		case isNilAddr(addr):
			r.Violate("start-ok-without-address", fmt.Sprintf("reference=%q", rd.why), fmt.Sprintf("Start returned (%#v, nil) for line %q; plugin alive=%v", o.Val, firstLine(actual), proc != nil && proc.Alive()))
		case !rd.ok:
			r.Violate("accepted-bad-line", fmt.Sprintf("reference=%q", rd.why), fmt.Sprintf("Start succeeded for line %q with client %+v", firstLine(actual), c))
		default:
			if addr.Network() != rd.network || addr.String() != normAddr(rd.network, rd.address) {
				r.Violate("wrong-report", "address", fmt.Sprintf("line says %s|%s, client reports %s|%s", rd.network, rd.address, addr.Network(), addr.String()))
			}
			if got := string(cl.Protocol()); got != rd.protocol {
				r.Violate("wrong-report", "protocol", fmt.Sprintf("line says %q, client reports %q", rd.protocol, got))
			}
			if got := cl.NegotiatedVersion(); got != rd.version {
				r.Violate("wrong-report", "version", fmt.Sprintf("line says %d, client reports %d", rd.version, got))
			}
		}
	} else {
		w.Probe("start.err")
		// a refused line stays refused: asking the same client again must not
		// turn the refusal into an acceptance
		o2 := r.Do("Start#2", hsTimeout+30*time.Second, func() (any, error) { return cl.Start() })
		if !o2.Hung && o2.Err == nil {
			r.Violate("accepted-bad-line", fmt.Sprintf("reference=%q second-start", rd.why), fmt.Sprintf("the first Start refused line %q (%v); the second Start on the same client succeeded", firstLine(actual), o.Err))
		}
		if p := cl.Protocol(); p != plugin.ProtocolInvalid && !rd.ok && (o2.Hung || o2.Err != nil) {
			r.Violate("accepted-bad-line", fmt.Sprintf("reference=%q protocol-after-refusal", rd.why), fmt.Sprintf("Start refused line %q but the client reports protocol %q", firstLine(actual), p))
		}
		if rc := cl.ReattachConfig(); rc != nil && !rd.ok {
			r.Violate("accepted-bad-line", fmt.Sprintf("reference=%q reattach-config", rd.why), fmt.Sprintf("Start refused line %q but the client hands out a ReattachConfig (%v)", firstLine(actual), rc.Addr))
		}
		// C05: the launched process is terminated by then or shortly after
		if proc != nil {
			w.Probe("start.err.after-launch")
			select {
			case <-proc.ExitChan():
			case <-time.After(time.Second + 0):
			}
			if proc.Alive() {
				r.Violate("process-left-behind", ctx+" cause="+errClass(o.Err), fmt.Sprintf("Start failed with %q but the plugin process is still alive 1s later", firstLine(o.Err.Error())))
			}
		}
	}
	_ = startReturned
	if o.Err == nil {
		// the host connects (a scripted plugin may refuse or ignore it): whatever
		// Client() says, the Kill below must still end the process
		co := r.Do("Client", 60*time.Second, func() (any, error) { return cl.Client() })
		if co.Hung {
			r.Violate("hang", "op=Client after-start=ok "+ctx, r.HostStacks("goplugin"))
			return
		}
		if co.Err != nil {
			w.Probe("client.err-after-start-ok")
			co2 := r.Do("Client#2", 60*time.Second, func() (any, error) { return cl.Client() })
			if !co2.Hung && co2.Err == nil && co2.Val == nil {
				r.Violate("client-ok-without-client", ctx, "the second Client() call returned (nil, nil)")
			}
		}
	}
	if holder > 0 {
		// (as long as a descendant keeps the pipes open the host neither reaps
		// the plugin nor lets Kill return - upstream behaviour, DESIGN 0.8; Kill
		// is judged once the descendant is gone)
		if hp := w.ProcByName("holder"); hp != nil {
			<-hp.ExitChan()
		}
	}
	// a later Kill returns promptly and cleans up
	ko := r.Do("Kill", 150*time.Second, func() (any, error) { cl.Kill(); return nil, nil })
	if ko.Hung {
		r.Violate("hang", "op=Kill after-start="+okErr(o.Err)+" "+ctx, fmt.Sprintf("Kill still outstanding after %v\n%s", ko.Took, r.HostStacks("goplugin")))
		return
	}
	if o.Err != nil && ko.Took > 5*time.Second+ko.Inject {
		r.Violate("slow-kill", ctx, fmt.Sprintf("Kill after a failed start took %v", ko.Took))
	}
	if proc != nil && proc.Alive() {
		r.Violate("process-left-behind", ctx+" after-kill", "plugin process alive after Kill")
	}
	if o.Err != nil && !rd.ok && holder == 0 {
		// a refused line stays refused after Kill as well, and nothing is launched again
		o3 := r.Do("Start(after-kill)", hsTimeout+30*time.Second, func() (any, error) { return cl.Start() })
		if !o3.Hung && o3.Err == nil {
			r.Violate("accepted-bad-line", fmt.Sprintf("reference=%q start-after-kill", rd.why), fmt.Sprintf("Start refused line %q; after Kill the same client's Start succeeded", firstLine(actual)))
		}
		if st.Launches > 1 {
			r.Violate("accepted-bad-line", fmt.Sprintf("reference=%q relaunched-after-kill", rd.why), fmt.Sprintf("the plugin was launched %d times by one client", st.Launches))
		}
		r.Do("Kill#2", 150*time.Second, func() (any, error) { cl.Kill(); return nil, nil })
	}
	if launch == "runner" {
		for _, p := range w.Paths() {
			if strings.Contains(p, "plugin-dir") {
				r.Violate("tempdir-left", ctx+" after-start="+okErr(o.Err), "socket directory still exists after Kill: "+p)
				break
			}
		}
	}
	if prop == "C05" && o.Err == nil {
		w.Probe("c05.start-unexpectedly-ok")
	}
}

func okErr(err error) string {
	if err == nil {
		return "ok"
	}
	return "err"
}

func firstLine(s string) string {
	if i := strings.IndexByte(s, '\n'); i >= 0 {
		s = s[:i]
	}
	if len(s) > 200 {
		s = s[:200] + "..."
	}
	return s
}

func normAddr(network, address string) string {
	if network == "tcp" {
		// (as net.TCPAddr prints a literal address: an IPv4-mapped IPv6 address
		// in its IPv4 form, a zone kept)
		if ap, err := netip.ParseAddrPort(address); err == nil {
			return netip.AddrPortFrom(ap.Addr().Unmap(), ap.Port()).String()
		}
		host, port, err := net.SplitHostPort(address)
		if err == nil {
			if host == "localhost" {
				host = "127.0.0.1"
			}
			pn, _ := strconv.Atoi(port)
			return net.JoinHostPort(host, strconv.Itoa(pn))
		}
	}
	return address
}

func errClass(err error) string {
	s := err.Error()
	switch {
	case strings.Contains(s, "timeout while waiting"):
		return "timeout"
	case strings.Contains(s, "exited before"):
		return "exited"
	case strings.Contains(s, "Unrecognized remote plugin message"):
		return "unrecognized"
	case strings.Contains(s, "core protocol") || strings.Contains(s, "core API"):
		return "core-version"
	case strings.Contains(s, "Incompatible API version") || strings.Contains(s, "parsing protocol version"):
		return "app-version"
	case strings.Contains(s, "Unsupported plugin protocol"):
		return "protocol"
	case strings.Contains(s, "server cert"):
		return "cert"
	case errors.Is(err, plugin.ErrGRPCBrokerMuxNotSupported) || strings.Contains(s, "multiplexing"):
		return "mux"
	case strings.Contains(s, "address"):
		return "address"
	}
	return "other"
}

func b64(s string) string { return base64.StdEncoding.EncodeToString([]byte(s)) }

// hsSpecs enumerates single-field deviations (and shapes) for the given configurations.
func hsSpecs(prop string, seed uint64, confs []hsConf, launches []string) []*k.Spec {
	var out []*k.Spec
	for ci, c := range confs {
		for _, launch := range launches {
			for f := 0; f < 7; f++ {
				for cl := range hsFieldClasses[f] {
					if cl == 0 && f > 0 {
						continue // the all-valid line is produced once (f==0,cl==0)
					}
					var classes [7]int
					classes[f] = cl
					line := buildLine(c, classes)
					out = append(out, sp(prop, fmt.Sprintf("field/c%d/%s/f%d=%d", ci, launch, f, cl), seed, cp(c.params(), "launch", launch, "out", b64(line+"\n"))))
				}
			}
			if launch == "runner" {
				// a custom runner together with a UnixSocketConfig on the host
				for f := 0; f < 6; f++ {
					var classes [7]int
					classes[f] = 2 + f%2
					out = append(out, sp(prop, fmt.Sprintf("usc/c%d/f%d", ci, f), seed, cp(c.params(), "launch", launch, "usc", "empty", "out", b64(buildLine(c, classes)+"\n"))))
				}
				out = append(out, sp(prop, fmt.Sprintf("usc/c%d/silent", ci), seed, cp(c.params(), "launch", launch, "usc", "empty", "out", "", "end", "exit:2")))
				out = append(out, sp(prop, fmt.Sprintf("usc/c%d/valid", ci), seed, cp(c.params(), "launch", launch, "usc", "empty", "out", b64(buildLine(c, [7]int{})+"\n"))))
			}
			// the tcp network with every address form (a pair of deviations)
			for a := range hsFieldClasses[3] {
				var classes [7]int
				classes[2], classes[3] = 1, a
				out = append(out, sp(prop, fmt.Sprintf("tcpaddr/c%d/%s/a%d", ci, launch, a), seed, cp(c.params(), "launch", launch, "out", b64(buildLine(c, classes)+"\n"))))
			}
			valid := buildLine(c, [7]int{})
			for si, sh := range hsShapes {
				out = append(out, sp(prop, fmt.Sprintf("shape/c%d/%s/s%d", ci, launch, si), seed, cp(c.params(), "launch", launch, "out", b64(shapeLine(sh, valid)))))
			}
			// timing and end-of-script behaviours on a valid line
			for ti, t := range []map[string]string{
				P("delay", "9s"), P("delay", "11s"), P("delay", "9999ms", "chunk", "1", "gap", "1ms"),
				P("chunk", "3", "gap", "700ms"), P("end", "exit:0"), P("end", "exit:3"), P("end", "closeout"),
				P("delay", "2s", "end", "exit:1"), P("chunk", "5", "gap", "3s"), P("listen", ""), P("listen", "tcp"),
			} {
				pp := cp(c.params(), "launch", launch, "out", b64(valid+"\n"))
				for kk, v := range t {
					pp[kk] = v
				}
				out = append(out, sp(prop, fmt.Sprintf("timing/c%d/%s/t%d", ci, launch, ti), seed, pp))
			}
			// more output right behind the line, in the same write: the beginning of
			// a next line that looks like another handshake, with and without enough
			// bytes behind it to fill the reader's buffer
			other := "1|1|tcp|127.0.0.1:4321|netrpc|"
			bumped := strings.Split(valid, "|")
			if len(bumped) > 1 {
				bumped[1] = "9"
			}
			for fi, first := range []string{valid, strings.Join(bumped, "|")} {
				for ti, tail := range []string{other + "{PAD5000}", other + "{PAD100}", other, "{PAD5000}", other + "{PAD5000}\n"} {
					out = append(out, sp(prop, fmt.Sprintf("tail/c%d/%s/l%d/t%d", ci, launch, fi, ti), seed, cp(c.params(), "launch", launch, "out", b64(first+"\n"+tail))))
				}
			}
			// a descendant of the plugin keeps its stdout/stderr open for 20 s,
			// whatever becomes of the plugin itself
			for hi, hp := range []map[string]string{
				P("out", b64(valid[:len(valid)/2]), "end", "exit:0"),         // half a line, then the plugin dies
				P("out", b64(valid[:len(valid)/2]), "end", "stay"),           // half a line, then nothing: timeout
				P("out", b64(strings.Join(bumped, "|")+"\n"), "end", "stay"), // a refused line
				P("out", b64("1|1|unix\n"), "end", "exit:1"),                 // too few fields
				P("out", "", "end", "exit:2", "errtext", "cannot start\n"),   // silent death
				P("out", b64(valid+"\n"), "end", "stay"),                     // accepted
			} {
				pp := cp(c.params(), "launch", launch, "holder", "20s")
				for kk, v := range hp {
					pp[kk] = v
				}
				out = append(out, sp(prop, fmt.Sprintf("holder/c%d/%s/h%d", ci, launch, hi), seed, pp))
			}
			// no output at all
			for ei, e := range []string{"stay", "exit:0", "exit:2", "closeout", "closeboth"} {
				out = append(out, sp(prop, fmt.Sprintf("silent/c%d/%s/e%d", ci, launch, ei), seed, cp(c.params(), "launch", launch, "out", "", "end", e, "errtext", "some diagnostics on stderr\n")))
			}
			// partial line without newline, then behaviours
			for ei, e := range []string{"stay", "exit:0", "closeout"} {
				out = append(out, sp(prop, fmt.Sprintf("partial/c%d/%s/e%d", ci, launch, ei), seed, cp(c.params(), "launch", launch, "out", b64(valid[:len(valid)/2]), "end", e)))
			}
		}
	}
	return out
}

func hsRandom(prop string, seed uint64, n int, launches []string) []*k.Spec {
	confs := hsConfs(true)
	return seeded(prop, seed, n, func(i int, sd uint64) *k.Spec {
		u := func(tag string, n int) int { return int(k.H(sd, tag, 0) % uint64(n)) }
		c := confs[u("conf", len(confs))]
		var classes [7]int
		// most fields valid, 1-3 deviate
		ndev := 1 + u("ndev", 3)
		for d := 0; d < ndev; d++ {
			f := int(k.H(sd, "devf", d) % 7)
			classes[f] = int(k.H(sd, "devc", d) % uint64(len(hsFieldClasses[f])))
		}
		line := buildLine(c, classes)
		shape := hsShapes[0]
		if u("shapeon", 4) == 0 {
			shape = hsShapes[u("shape", len(hsShapes))]
		}
		pp := cp(c.params(), "launch", launches[u("launch", len(launches))], "out", b64(shapeLine(shape, line)))
		if u("timingon", 3) == 0 {
			pp["delay"] = []string{"0", "1s", "9s", "9999999999ns", "10s", "10000000001ns", "12s"}[u("delay", 7)]
			pp["chunk"] = []string{"0", "1", "2", "7", "64"}[u("chunk", 5)]
			pp["gap"] = []string{"0", "1ms", "100ms", "2s"}[u("gap", 4)]
		}
		if u("endon", 3) == 0 {
			pp["end"] = []string{"stay", "exit:0", "exit:1", "closeout", "closeboth"}[u("end", 5)]
		}
		if u("listenon", 5) == 0 {
			pp["listen"] = []string{"", "tcp"}[u("listen", 2)]
		}
		if pp["launch"] == "runner" && u("usc", 2) == 0 {
			pp["usc"] = "empty" // the host also gave a UnixSocketConfig
		}
		if u("holderon", 8) == 0 {
			pp["holder"] = []string{"3s", "20s", "45s"}[u("holder", 3)]
		}
		s := &k.Spec{Seed: sd, Params: pp}
		if u("noise", 2) == 0 {
			swarm(s, "client.go:Client.Start")
			if s.DelayClass == "big" {
				s.DelayClass = "mid"
			}
		}
		if u("pfaults", 3) == 0 {
			s.Faults = "pipe.chunk,pipe.smallbuf"
		}
		return s
	})
}

// system calls that can fail for want of a resource, with the choice key that
// decides the failure of one particular call
var c05Resource = []struct{ name, fault, key string }{
	{"fork", "spawn.fail", "spawnfail#0"},
	{"plugin-pipe-1", "pipe.emfile", "emfile/pipe#0"},
	{"plugin-pipe-2", "pipe.emfile", "emfile/pipe#1"},
	{"mkdirtemp", "fs.enospc", "enospc/mkdirtemp#0"},
	{"createtemp", "fs.enospc", "enospc/createtemp#0"},
	{"listen", "listen.fail", "listenfail/plugin#0"},
}

// runC05Resource: a real, well-behaved plugin; one system call on the way to
// a running plugin fails.
func runC05Resource(r *h.Run) {
	w := r.W
	c := r.ConfFromParams()
	c.Timeout = 10 * time.Second
	ctx := fmt.Sprintf("resource=%s proto=%s launch=%s", r.Spec.P("resource", ""), c.Proto, c.Launch)
	before := map[string]bool{}
	for _, p := range w.Paths() {
		before[p] = true
	}
	r.InstallPlugin(&c)
	cl := r.NewClient(c)
	o := r.Do("Start", 60*time.Second, func() (any, error) { return cl.Start() })
	if o.Hung {
		r.Violate("hang", "op=Start "+ctx, fmt.Sprintf("Start still outstanding after %v\n%s", o.Took, r.HostStacks("goplugin")))
		return
	}
	fired := ""
	for _, f := range []string{"spawn.fail", "pipe.emfile", "fs.enospc", "listen.fail"} {
		if w.FaultCount(f) > 0 {
			fired += f + " "
		}
	}
	proc := w.ProcByName("plugin")
	if o.Err == nil {
		w.Probe("resource.start-ok")
		if fired != "" && r.Spec.P("resource", "") != "random" {
			// (a failed call the start can do without is possible in principle; none is known)
			w.Probe("resource.start-ok-despite-fault")
		}
		do := r.Do("use", 60*time.Second, func() (any, error) {
			cp, err := cl.Client()
			if err != nil {
				return nil, err
			}
			raw, err := cp.Dispense(h.PluginName)
			if err != nil {
				return nil, err
			}
			return raw.(plugins.Cmd).Do("tag", "")
		})
		if do.Hung {
			r.Violate("hang", "op=use "+ctx, r.HostStacks("goplugin"))
			return
		}
		if do.Err != nil && fired == "" {
			r.Violate("setup", "fault-free start unusable "+ctx, do.Err.Error())
		}
	} else {
		w.Probe("resource.start-err")
		if fired == "" && w.InjectedTotal() < time.Second {
			r.Violate("setup", "start failed without a fault "+ctx, o.Err.Error()+"\n"+r.HLog.String())
		}
		if proc != nil {
			select {
			case <-proc.ExitChan():
			case <-time.After(time.Second):
			}
			if proc.Alive() {
				r.Violate("process-left-behind", ctx+" cause="+errClass(o.Err), fmt.Sprintf("Start failed with %q but the plugin process is still alive 1s later", firstLine(o.Err.Error())))
			}
		}
	}
	ko := r.Do("Kill", 150*time.Second, func() (any, error) { cl.Kill(); return nil, nil })
	if ko.Hung {
		r.Violate("hang", "op=Kill after-start="+okErr(o.Err)+" "+ctx, fmt.Sprintf("Kill still outstanding after %v\n%s", ko.Took, r.HostStacks("goplugin")))
		return
	}
	if o.Err != nil && ko.Took > 5*time.Second+ko.Inject {
		r.Violate("slow-kill", ctx, fmt.Sprintf("Kill after a failed start took %v", ko.Took))
	}
	time.Sleep(3 * time.Second)
	if proc != nil && proc.Alive() {
		r.Violate("process-left-behind", ctx+" after-kill", "plugin process alive after Kill")
	}
	if c.Launch == "runner" {
		for _, p := range w.Paths() {
			if !before[p] && strings.Contains(p, "plugin-dir") {
				if proc == nil {
					// The process was never launched (fork failed, or the directory
					// could not be prepared): the property speaks of starts that fail
					// AFTER the launch. (Observation outside the listed properties:
					// in that case Kill returns early - runner.ID() is empty - and
					// the directory stays.)
					w.Probe("observation.dir-left-when-never-launched")
					break
				}
				r.Violate("dir-left-behind", ctx, "socket directory "+p+" still exists after Kill")
				break
			}
		}
	}
}

func init() {
	Register(&Prop{ID: "C01",
		Meta: Meta{Level: "exploration",
			Rule:       "scripted (non-go-plugin) plugin process whose first stdout line is generated from a 7-field grammar (per field: valid/empty/garbage/non-numeric/negative/huge/blank-padded/...; missing and extra fields; LF/CRLF/no terminator; blank lines first; 70KB line; real DER certificates generated inside the run) delivered in drawn chunks with drawn delays that straddle StartTimeout, then staying alive, exiting or closing stdout; x 128 client configurations (allowed lists x legacy/versioned sets x TLS none/static/static with own RootCAs/AutoMTLS x mux); oracle = reference reading of the line written from the property statement: Start returns within StartTimeout+bound, never (nil,nil), succeeds only for lines the reference accepts, reports exactly the line's protocol/version/address, on error the process is terminated; host panic = violation. Quick: all single-field deviations x 10 configurations x 2 launch methods (complete) + 1500 random; thorough: x all 128 configurations + random",
			Exhaustive: "all single-field deviations from the valid line (7 fields x 8-13 classes), 16 line shapes, 11 timing/exit behaviours, silent and partial-line plugins, for each listed client configuration and launch method"},
		Plan: func(tier string, seed uint64, stage int, prev []*h.Result) []*k.Spec {
			if stage > 0 {
				return nil
			}
			launches := []string{"cmd", "runner"}
			if tier == "selftest" {
				return hsRandom("C01", seed, 6, launches)
			}
			out := hsSpecs("C01", seed, hsConfs(tier == "thorough"), launches)
			n := 1500
			if tier == "thorough" {
				n = 300000
			}
			return append(out, hsRandom("C01", seed, n, launches)...)
		},
		Run: func(r *h.Run) { runHandshake(r, "C01") },
	})
	Register(&Prop{ID: "C05",
		Meta: Meta{Level: "fault_enumeration",
			Rule:       "every way Start can fail after launch, enumerated (plus, group `resource`: a well-behaved plugin and one failing system call on the way - fork, the plugin's pipes, MkdirTemp, CreateTemp, listen - enumerated and seeded): each handshake field invalid in turn (7 fields x classes), malformed shapes, silence until timeout, partial line without newline, exit before any output (codes 0/2), stdout closed while alive, both pipes closed, disallowed protocol, bad certificate, unsupported multiplexing, line arriving after the timeout - x launch method (command, custom runner) x 8 client configurations; plus seeded timing/chunking/schedule noise; oracle: when Start returns an error the launched process is dead within 1s simulated, a later Kill returns within 5s and, with a custom runner, the plugin-dir* directory is gone",
			Exhaustive: "the failure-cause x launch-method x configuration matrix described in rule"},
		Plan: func(tier string, seed uint64, stage int, prev []*h.Result) []*k.Spec {
			if stage > 0 {
				return nil
			}
			launches := []string{"cmd", "runner"}
			if tier == "selftest" {
				return hsRandom("C05", seed, 6, launches)
			}
			out := hsSpecs("C05", seed, hsConfs(tier == "thorough"), launches)
			// a start that fails for want of a resource: process creation, pipes,
			// temporary directories and files, the plugin's listener - each
			// failing system call in turn, on either side
			for _, proto := range []string{"netrpc", "grpc"} {
				for _, l := range launches {
					for _, rf := range c05Resource {
						s := sp("C05", fmt.Sprintf("resource/%s/%s/%s", proto, l, rf.name), seed, P("resource", rf.name, "proto", proto, "launch", l))
						s.Faults = rf.fault
						s.Overrides = map[string]int64{rf.key: 1}
						out = append(out, s)
					}
				}
			}
			n := 800
			if tier == "thorough" {
				n = 100000
			}
			out = append(out, hsRandom("C05", seed^0x55, n, launches)...)
			nr := 200
			if tier == "thorough" {
				nr = 30000
			}
			return append(out, seeded("C05", seed^0x77, nr, func(i int, sd uint64) *k.Spec {
				s := &k.Spec{Seed: sd, Params: P("resource", "random", "proto", []string{"netrpc", "grpc"}[k.H(sd, "proto", 0)%2], "launch", launches[k.H(sd, "launch", 0)%2])}
				s.Faults = "spawn.fail,pipe.emfile,fs.enospc,listen.fail"
				s.Case = fmt.Sprintf("resource-seeded/%d", i)
				if k.H(sd, "noise", 0)%2 == 0 {
					swarm(s, "client.go:Client.Start,cmd_runner.go,server.go:Serve")
					if s.DelayClass == "big" {
						s.DelayClass = "mid"
					}
				}
				return s
			})...)
		},
		Run: func(r *h.Run) {
			if r.Spec.P("resource", "") != "" {
				runC05Resource(r)
				return
			}
			runHandshake(r, "C05")
		},
	})
}
