package props

import (
	"context"
	"crypto/tls"
	"crypto/x509"
	"encoding/pem"
	"fmt"
	"net"
	"net/rpc"
	"strings"
	"sync"
	"time"

	plugin "simworld/goplugin"
	grpctest "simworld/goplugin/test/grpc"
	"simworld/h"
	"simworld/k"
	"simworld/plugins"
	"simworld/shim/simnet"
	"simworld/shim/simos"

	"github.com/hashicorp/yamux"
	"google.golang.org/grpc"
	"google.golang.org/grpc/credentials"
	"google.golang.org/grpc/credentials/insecure"
	"google.golang.org/grpc/health/grpc_health_v1"
)

// C12: with AutoMTLS every plugin connection is mutually authenticated.

var c12Creds = []string{"plaintext", "tls-nocert", "tls-selfsigned", "tls-samename", "tls-chain-hostcert"}

// the host certificate as an intruder can read it from the environment of the
// plugin process (/proc/<pid>/environ): public, but only the host has its key
var c12HostCertPEM []byte
var c12Paths = []string{"main", "plugin-brokered", "host-brokered"}

func init() {
	Register(&Prop{ID: "C12",
		Meta: Meta{Level: "fault_enumeration",
			Rule:       "AutoMTLS host + real plugin (net/rpc, gRPC, gRPC+mux) + an intruder process that reads listener addresses from the kernel's socket table and attacks a connection path {main listener, plugin-side brokered listener, host-side brokered listener} with a credential class {plaintext, TLS without client certificate, TLS with a fresh self-signed certificate, TLS with a certificate carrying the right names but another key, TLS with an own leaf followed by the host certificate read from the environment of the plugin process}, before or after the legitimate peer connects, then attempts a yamux+net/rpc call or gRPC health / PingPong / plugin-service call; for gRPC+mux, where brokered connections are yamux streams of the main connection, an on-path observer parses the yamux framing on the wire and requires every stream to start, in both directions, with a TLS handshake record; and an impostor plugin that announces certificate A in the handshake and serves with certificate B (also against a host that sets AutoMTLS together with a TLSConfig of its own carrying RootCAs or InsecureSkipVerify). Matrix path x credential x protocol x timing enumerated, seeded timing and schedule noise on top. Oracle: no intruder call is ever answered, the plugin's served-request counter equals the legitimate host's calls, the legitimate host works or gets an error (never hangs), and against the impostor the first use fails",
			Exhaustive: "connection path x credential class x protocol x {before, after the legitimate peer}; impostor x protocol"},
		Plan: func(tier string, seed uint64, stage int, prev []*h.Result) []*k.Spec {
			if stage > 0 {
				return nil
			}
			var cells []map[string]string
			for _, conf := range c03Confs[:3] {
				for _, path := range c12Paths {
					if path != "main" && (conf["proto"] == "netrpc" || conf["mux"] == "1") {
						continue // brokered connections have their own listeners only for gRPC without mux
					}
					for _, cred := range c12Creds {
						for _, when := range []string{"before", "after"} {
							cells = append(cells, cp(conf, "path", path, "cred", cred, "when", when))
						}
					}
				}
				if conf["mux"] == "1" {
					// brokered connections are yamux streams of the main connection:
					// nobody but an on-path observer can see them
					for _, l := range []string{"cmd", "runner"} {
						cells = append(cells, cp(conf, "path", "mux-brokered", "cred", "observer", "when", "after", "launch", l))
					}
				}
				// the host's certificate reaches the plugin damaged (a launcher that
				// cuts the value at its first line break, a flipped byte, ...): the
				// plugin may refuse everybody, it must not fall back to serving anybody
				for _, dmg := range []string{"firstline", "half", "flip", "garbage", "blank"} {
					for _, cred := range []string{"plaintext", "tls-nocert", "tls-selfsigned"} {
						cells = append(cells, cp(conf, "path", "main", "cred", cred, "when", "after", "certdamage", dmg))
					}
				}
				for _, ut := range []string{"roots-b", "skipverify"} {
					for _, im := range []string{"1", "nocert-tls"} {
						if conf["mux"] != "1" {
							cells = append(cells, cp(conf, "impostor", im, "usertls", ut))
						}
					}
				}
				cells = append(cells, cp(conf, "impostor", "1"))
				cells = append(cells, cp(conf, "impostor", "nocert"))
				if conf["mux"] != "1" {
					cells = append(cells, cp(conf, "impostor", "sibling"))
				}
				cells = append(cells, cp(conf, "impostor", "shortcert"))
			}
			if tier == "selftest" {
				return seeded("C12", seed, 4, func(i int, sd uint64) *k.Spec {
					return &k.Spec{Params: cp(cells[int(k.H(sd, "cell", 0)%uint64(len(cells)))])}
				})
			}
			var out []*k.Spec
			for _, c := range cells {
				out = append(out, sp("C12", fmt.Sprintf("cell/%s/%s/%s/%s/imp%s%s", confLabel(c), c["path"], c["cred"], c["when"], c["impostor"], c["certdamage"]+c["usertls"]), seed, c))
			}
			n := 300
			if tier == "thorough" {
				n = 60000
			}
			out = append(out, seeded("C12", seed, n, func(i int, sd uint64) *k.Spec {
				s := &k.Spec{Seed: sd, Params: cp(cells[int(k.H(sd, "cell", 0)%uint64(len(cells)))], "jitter", "1")}
				swarm(s, "server.go:Serve,client.go:Client.Start,grpc_broker.go:GRPCBroker.Accept,grpc_server.go")
				if s.DelayClass == "big" {
					s.DelayClass = "mid"
				}
				return s
			})...)
			return out
		},
		Run: runC12,
	})
}

func intruderTLS(cred string) *tls.Config {
	cfg := &tls.Config{InsecureSkipVerify: true, ServerName: "localhost", MinVersion: tls.VersionTLS12}
	if cred == "tls-selfsigned" || cred == "tls-samename" || cred == "tls-chain-hostcert" {
		certPEM, keyPEM := h.SelfSignedPEM()
		c, err := tls.X509KeyPair(certPEM, keyPEM)
		if err == nil {
			if cred == "tls-chain-hostcert" {
				// own leaf (own key), followed by the host certificate as if it were the issuer
				if blk, _ := pem.Decode(c12HostCertPEM); blk != nil {
					c.Certificate = append(c.Certificate, blk.Bytes)
				}
			}
			cfg.Certificates = []tls.Certificate{c}
		}
	}
	return cfg
}

// attack tries every way of getting an answer out of the listener at addr.
// It returns the answers obtained (empty = properly refused).
func attack(network, addr, cred, proto string) (answers []string) {
	dial := func() (net.Conn, error) {
		c, err := simnet.Dial(network, addr)
		if err != nil {
			return nil, err
		}
		c.SetDeadline(time.Now().Add(15 * time.Second))
		return c, nil
	}
	if proto == "netrpc" {
		c, err := dial()
		if err != nil {
			return nil
		}
		defer c.Close()
		var conn net.Conn = c
		if cred != "plaintext" {
			conn = tls.Client(c, intruderTLS(cred))
		}
		cfg := yamux.DefaultConfig()
		cfg.LogOutput = nil
		cfg.Logger = nil
		cfg.LogOutput = discard{}
		sess, err := yamux.Client(conn, cfg)
		if err != nil {
			return nil
		}
		defer sess.Close()
		st, err := sess.Open()
		if err != nil {
			return nil
		}
		st.SetDeadline(time.Now().Add(10 * time.Second))
		rc := rpc.NewClient(st)
		done := make(chan string, 1)
		go func() {
			var empty struct{}
			if err := rc.Call("Control.Ping", true, &empty); err == nil {
				done <- "net/rpc Control.Ping answered"
				return
			}
			done <- ""
		}()
		select {
		case a := <-done:
			if a != "" {
				answers = append(answers, a)
			}
		case <-time.After(12 * time.Second):
		}
		return
	}
	// gRPC (also the brokered listeners and the muxed main listener, which
	// expects yamux first)
	var creds credentials.TransportCredentials = insecure.NewCredentials()
	if cred != "plaintext" {
		creds = credentials.NewTLS(intruderTLS(cred))
	}
	dialer := func(ctx context.Context, _ string) (net.Conn, error) {
		c, err := dial()
		if err != nil {
			return nil, err
		}
		if proto == "grpc+mux" {
			cfg := yamux.DefaultConfig()
			cfg.LogOutput = discard{}
			sess, err := yamux.Client(c, cfg)
			if err != nil {
				return nil, err
			}
			return sess.Open()
		}
		return c, nil
	}
	cc, err := grpc.Dial("intruder", grpc.WithContextDialer(dialer), grpc.WithTransportCredentials(creds))
	if err != nil {
		return nil
	}
	defer cc.Close()
	ctx, cancel := context.WithTimeout(context.Background(), 12*time.Second)
	defer cancel()
	if _, err := grpc_health_v1.NewHealthClient(cc).Check(ctx, &grpc_health_v1.HealthCheckRequest{Service: plugin.GRPCServiceName}); err == nil {
		answers = append(answers, "gRPC health check answered")
	}
	if resp, err := grpctest.NewPingPongClient(cc).Ping(ctx, &grpctest.PingRequest{}); err == nil {
		answers = append(answers, "PingPong answered "+resp.Msg)
	}
	out := new(grpctest.PongResponse)
	if err := cc.Invoke(ctx, "/simharness.Cmd/Do", &grpctest.PongResponse{Msg: "tag\x00"}, out); err == nil {
		answers = append(answers, "plugin service answered "+out.Msg)
	}
	return
}

type discard struct{}

func (discard) Write(p []byte) (int, error) { return len(p), nil }

func runC12(r *h.Run) {
	w := r.W
	c := r.ConfFromParams()
	c.TLS = "auto"
	path, cred, when := r.Spec.P("path", "main"), r.Spec.P("cred", "plaintext"), r.Spec.P("when", "after")
	protoName := c.Proto
	if c.Mux {
		protoName = "grpc+mux"
	}
	ctx := fmt.Sprintf("proto=%s path=%s cred=%s when=%s", protoName, path, cred, when)
	if r.Spec.P("impostor", "") != "" {
		runC12Impostor(r, c)
		return
	}
	jitter := func(key string) time.Duration {
		if r.Spec.P("jitter", "") == "1" {
			return time.Duration(w.Range(key, 5)) * 300 * time.Microsecond
		}
		return 0
	}
	if dmg := r.Spec.P("certdamage", ""); dmg != "" {
		ctx += " host-certificate-damaged-on-the-way=" + dmg
		c.PluginMain = func(serve func()) {
			v := simos.Getenv("PLUGIN_CLIENT_CERT")
			switch dmg {
			case "firstline":
				v, _, _ = strings.Cut(v, "\n")
			case "half":
				v = v[:len(v)/2]
			case "flip":
				b := []byte(v)
				if len(b) > 120 {
					b[120] ^= 0x11
				}
				v = string(b)
			case "garbage":
				v = "not a certificate"
			case "blank":
				v = " "
			}
			simos.Setenv("PLUGIN_CLIENT_CERT", v)
			serve()
		}
	}
	wire := r.WatchWire(ctx, c.Mux)
	r.InstallPlugin(&c)
	cl := r.NewClient(c)

	var mu sync.Mutex
	var answers []string
	attacked := 0
	// the intruder: an unrelated local process that watches the socket table
	targetOwner := "plugin"
	if path == "host-brokered" {
		targetOwner = "host"
	}
	seen := map[string]bool{}
	stop := make(chan struct{})
	w.RegisterProgram("/bin/intruder", []byte("#!intruder"), func() {
		for {
			select {
			case <-stop:
				return
			default:
			}
			for _, l := range w.Listeners() {
				if l.Owner() == nil || l.Owner().Name != targetOwner || seen[l.Network+l.Global] {
					continue
				}
				isMain := false
				if a, ok := clAddr(cl); ok && a == l.Global {
					isMain = true
				}
				mainKnown := false
				if _, ok := clAddr(cl); ok {
					mainKnown = true
				}
				if path == "main" && mainKnown && !isMain {
					continue
				}
				if path != "main" && (isMain || !mainKnown) {
					continue
				}
				seen[l.Network+l.Global] = true
				time.Sleep(jitter("intruder/delay"))
				tp := "grpc"
				if path == "main" {
					tp = protoName
				}
				a := attack(l.Network, l.Global, cred, tp)
				mu.Lock()
				attacked++
				answers = append(answers, a...)
				mu.Unlock()
				w.Note("intruder", "attacked", l.Global)
			}
			time.Sleep(time.Millisecond)
		}
	})
	startIntruder := func() {
		if _, err := w.Spawn("intruder", "/bin/intruder", nil, []string{"PATH=/bin"}, nil, nil, nil, nil); err != nil {
			r.Violate("setup", "intruder spawn", err.Error())
		}
	}
	legit := 0
	if o := r.DoNoHang("Start", 90*time.Second, ctx, func() (any, error) { return cl.Start() }); o.Err != nil || o.Hung {
		r.Violate("setup", "start failed "+ctx, fmt.Sprint(o.Err))
		return
	}
	if pp := w.ProcByName("plugin"); pp != nil {
		if v, ok := pp.Getenv("PLUGIN_CLIENT_CERT"); ok {
			c12HostCertPEM = []byte(v)
		}
	}
	if when == "before" && path == "main" {
		startIntruder()
		time.Sleep(50*time.Millisecond + jitter("host/delay"))
	}
	var cmd plugins.Cmd
	o := r.DoNoHang("Client+Dispense", 120*time.Second, ctx, func() (any, error) {
		cp, err := cl.Client()
		if err != nil {
			return nil, err
		}
		return cp.Dispense(h.PluginName)
	})
	if o.Hung {
		return
	}
	if o.Err == nil {
		cmd = o.Val.(plugins.Cmd)
	} else {
		w.Probe("legit.connect-failed")
	}
	if when == "after" && path == "main" {
		startIntruder()
	}
	call := func(op, arg string) (string, error) {
		if cmd == nil {
			return "", fmt.Errorf("not connected")
		}
		oo := r.DoNoHang("Do("+op+")", 90*time.Second, ctx, func() (any, error) { return cmd.Do(op, arg) })
		if oo.Hung {
			return "", fmt.Errorf("hung")
		}
		if oo.Err == nil {
			legit++
			return oo.Val.(string), nil
		}
		return "", oo.Err
	}
	call("tag", "")
	if path == "mux-brokered" && cmd != nil {
		for round := 0; round < 2; round++ {
			id := uint32(700 + 10*round)
			call("accept", fmt.Sprint(id))
			if oo := r.DoNoHang("HostDial", 60*time.Second, ctx, func() (any, error) { return h.HostDialPing(cmd, id) }); oo.Err == nil {
				legit++
			} else if !oo.Hung {
				r.Violate("legit-host-broken", ctx+" host->plugin", oo.Err.Error())
			}
			h.HostAccept(r, cmd, id+1)
			if _, err := call("dial", fmt.Sprint(id+1)); err != nil {
				r.Violate("legit-host-broken", ctx+" plugin->host", err.Error())
			}
		}
		if n, tlsN, _ := wire.Counts(); n < 5 || tlsN < 10 {
			r.Violate("setup", "observer saw too few multiplexed streams "+ctx, fmt.Sprintf("streams=%d tls-starts=%d", n, tlsN))
		}
	} else if path != "main" && cmd != nil {
		if when == "before" {
			startIntruder()
		}
		if path == "plugin-brokered" {
			call("accept", "700")
			time.Sleep(20*time.Millisecond + jitter("host/delay2"))
			if when == "after" {
				if oo := r.DoNoHang("HostDial(700)", 60*time.Second, ctx, func() (any, error) { return h.HostDialPing(cmd, 700) }); oo.Err == nil {
					legit++ // PingPong served by the plugin
				}
				call("accept", "702") // a second listener for the late intruder
				startIntruder()
				time.Sleep(50 * time.Millisecond)
			} else {
				time.Sleep(30 * time.Millisecond)
				if oo := r.DoNoHang("HostDial(700)", 60*time.Second, ctx, func() (any, error) { return h.HostDialPing(cmd, 700) }); oo.Err == nil {
					legit++
				}
			}
		} else {
			h.HostAccept(r, cmd, 701)
			time.Sleep(20*time.Millisecond + jitter("host/delay2"))
			if when == "after" {
				call("dial", "701")
				h.HostAccept(r, cmd, 703)
				startIntruder()
				time.Sleep(50 * time.Millisecond)
			} else {
				time.Sleep(30 * time.Millisecond)
				call("dial", "701")
			}
		}
	}
	// give the intruder time to finish all attempts
	time.Sleep(40 * time.Second)
	call("tag", "")
	close(stop)
	mu.Lock()
	got := append([]string(nil), answers...)
	n := attacked
	mu.Unlock()
	if n == 0 {
		w.Probe("intruder.no-target")
	} else {
		w.Probe("intruder.attacked")
	}
	if len(got) > 0 {
		r.Violate("intruder-served", ctx, fmt.Sprintf("an unauthenticated peer got answers: %s", strings.Join(got, "; ")))
	}
	if c.Sh != nil && path != "host-brokered" {
		if served := c.Sh.ServedCount(); served > legit {
			r.Violate("intruder-served", ctx+" counter", fmt.Sprintf("the plugin served %d requests, the legitimate host made %d successful calls", served, legit))
		}
	}
	if cmd != nil && legit == 0 && when == "after" && r.Spec.P("certdamage", "") == "" {
		r.Violate("legit-host-broken", ctx, "the legitimate host connected but none of its calls succeeded")
	}
	r.DoNoHang("Kill", 150*time.Second, ctx, func() (any, error) { cl.Kill(); return nil, nil })
}

func clAddr(cl *plugin.Client) (string, bool) {
	rc := cl.ReattachConfig()
	if rc == nil || rc.Addr == nil {
		return "", false
	}
	return rc.Addr.String(), true
}

// runC12Impostor: the plugin announces certificate A and serves with B.
func runC12Impostor(r *h.Run, c h.Conf) {
	mode := r.Spec.P("impostor", "1")
	ctx := "impostor=" + mode + " proto=" + c.String()
	certA, _ := h.SelfSignedPEM()
	certB, keyB := h.SelfSignedPEM()
	sh := plugins.NewShared("impostor")
	if mode == "sibling" {
		// the impostor announces a certificate of its own and the ADDRESS of
		// another, genuine AutoMTLS plugin this host is already talking to
		// (through another client): nothing learnt in that other client's
		// session may make this client accept that plugin's certificate
		cB := c
		cB.Name, cB.Mux = "sibling", false
		shB := plugins.NewShared("sibling")
		cB.Sh = shB
		r.InstallPlugin(&cB)
		clB := r.NewClient(cB)
		ob := r.DoNoHang("Sibling.use", 120*time.Second, ctx, func() (any, error) {
			cp, err := clB.Client()
			if err != nil {
				return nil, err
			}
			raw, err := cp.Dispense(h.PluginName)
			if err != nil {
				return nil, err
			}
			return raw.(plugins.Cmd).Do("tag", "")
		})
		addrB, ok := clAddr(clB)
		if ob.Err != nil || ob.Hung || !ok {
			r.Violate("setup", "sibling plugin "+ctx, fmt.Sprint(ob.Err))
			return
		}
		servedB := shB.ServedCount()
		r.W.RegisterProgram("/bin/impostor", []byte("#!impostor"), func() {
			proto := "netrpc"
			if c.Proto == "grpc" {
				proto = "grpc"
			}
			fmt.Fprintf(k.Cur().Fd1, "1|1|unix|%s|%s|%s\n", addrB, proto, h.PEMToRawB64(certA))
			select {}
		})
		c.Path, c.Name, c.Mux = "/bin/impostor", "plugin", false
		cl := r.NewClient(c)
		if o := r.DoNoHang("Start", 90*time.Second, ctx, func() (any, error) { return cl.Start() }); o.Err != nil || o.Hung {
			r.W.Probe("impostor.rejected-at-start")
		} else {
			u := r.DoNoHang("FirstUse", 120*time.Second, ctx, func() (any, error) {
				cp, err := cl.Client()
				if err != nil {
					return nil, err
				}
				raw, err := cp.Dispense(h.PluginName)
				if err != nil {
					return nil, err
				}
				return raw.(plugins.Cmd).Do("tag", "")
			})
			if !u.Hung && u.Err == nil {
				r.Violate("impostor-accepted", ctx, fmt.Sprintf("the host's second client talked to a plugin whose certificate was never announced to it: answer %v", u.Val))
			} else {
				r.W.Probe("impostor.rejected-at-first-use")
			}
			if shB.ServedCount() > servedB {
				r.Violate("impostor-accepted", ctx+" served", "the sibling plugin served a request that came through the other client")
			}
		}
		r.DoNoHang("Kill", 150*time.Second, ctx, func() (any, error) { cl.Kill(); return nil, nil })
		r.DoNoHang("Kill(sibling)", 150*time.Second, ctx, func() (any, error) { clB.Kill(); return nil, nil })
		return
	}
	r.W.RegisterProgram("/bin/impostor", []byte("#!impostor"), func() {
		// a real Serve with a static TLS provider (certificate B), behind a
		// stdout filter that swaps the announced certificate for A is not
		// possible from outside Serve; serve directly instead.
		pair, _ := tls.X509KeyPair(certB, keyB)
		ln, err := simnet.Listen("unix", "/tmp/impostor.sock")
		if err != nil {
			return
		}
		var tl net.Listener = tls.NewListener(ln, &tls.Config{Certificates: []tls.Certificate{pair}, ClientAuth: tls.RequestClientCert, MinVersion: tls.VersionTLS12})
		proto := "netrpc"
		if c.Proto == "grpc" {
			proto = "grpc"
		}
		announced := h.PEMToRawB64(certA)
		switch mode {
		case "nocert":
			// announces no certificate at all and serves in clear
			announced, tl = "", ln
		case "nocert-tls":
			// announces no certificate and serves TLS with certificate B
			announced = ""
		case "shortcert":
			announced, tl = "legacy-extra-data", ln
		}
		fmt.Fprintf(k.Cur().Fd1, "1|1|unix|/tmp/impostor.sock|%s|%s\n", proto, announced)
		if c.Proto == "grpc" {
			s := grpc.NewServer()
			s.RegisterService(plugins.CmdServiceDesc(), plugins.NewGRPCCmdServer(sh))
			s.Serve(tl)
			return
		}
		srv := &plugin.RPCServer{Plugins: h.PluginSet("netrpc", sh), Stdout: strings.NewReader(""), Stderr: strings.NewReader("")}
		srv.Serve(tl)
	})
	c.Path, c.Name, c.Mux = "/bin/impostor", "plugin", false
	if ut := r.Spec.P("usertls", ""); ut != "" {
		// the host sets AutoMTLS AND hands in a TLS configuration of its own
		// with trust settings: AutoMTLS must still trust nothing but the
		// certificate that comes back in the handshake
		ctx += " host-tlsconfig=" + ut
		c.TweakClient = func(cc *plugin.ClientConfig) {
			switch ut {
			case "roots-b":
				pool := x509.NewCertPool()
				pool.AppendCertsFromPEM(certB)
				cc.TLSConfig = &tls.Config{RootCAs: pool, ServerName: "localhost", MinVersion: tls.VersionTLS12}
			case "skipverify":
				cc.TLSConfig = &tls.Config{InsecureSkipVerify: true, MinVersion: tls.VersionTLS12}
			}
		}
	}
	cl := r.NewClient(c)
	o := r.DoNoHang("Start", 90*time.Second, ctx, func() (any, error) { return cl.Start() })
	if o.Hung {
		return
	}
	if o.Err != nil {
		r.W.Probe("impostor.rejected-at-start")
		r.Do("Kill", 60*time.Second, func() (any, error) { cl.Kill(); return nil, nil })
		return
	}
	u := r.DoNoHang("FirstUse", 120*time.Second, ctx, func() (any, error) {
		cp, err := cl.Client()
		if err != nil {
			return nil, err
		}
		raw, err := cp.Dispense(h.PluginName)
		if err != nil {
			return nil, err
		}
		return raw.(plugins.Cmd).Do("tag", "")
	})
	if u.Hung {
		return
	}
	if u.Err == nil {
		r.Violate("impostor-accepted", ctx, fmt.Sprintf("the host talked to a plugin serving a certificate other than the announced one: answer %v", u.Val))
	} else {
		r.W.Probe("impostor.rejected-at-first-use")
	}
	if sh.ServedCount() > 0 {
		r.Violate("impostor-accepted", ctx+" served", "the impostor served a request of the host")
	}
	r.DoNoHang("Kill", 150*time.Second, ctx, func() (any, error) { cl.Kill(); return nil, nil })
}
