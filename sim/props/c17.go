package props

import (
	"crypto/sha256"
	"fmt"
	hclog "github.com/hashicorp/go-hclog"
	"io"
	"simworld/goplugin/runner"
	"sort"
	"strings"
	"time"

	plugin "simworld/goplugin"
	"simworld/h"
	"simworld/k"
	"simworld/plugins"
	"simworld/shim/simexec"
	"simworld/shim/simos"
)

// C17: plugin launch environment and stdin are determined by the client config.

var c17Ambient = []string{"none", "cert", "mux", "sockdir", "sockgroup", "versions", "ports", "cookie", "all", "family"}

func init() {
	Register(&Prop{ID: "C17",
		Meta: Meta{Level: "exploration",
			Rule:       "real Client launching a real Serve program that first records the environment it actually sees (after os/exec's de-duplication for command launch; last assignment in cmd.Env for a custom runner) and what it can read from stdin; client configurations AutoMTLS x multiplexing x SkipHostEnv x socket group x port range x versioned sets x launch method, crossed with host environments that already carry PLUGIN_CLIENT_CERT / PLUGIN_MULTIPLEX_GRPC / PLUGIN_UNIX_SOCKET_DIR / PLUGIN_UNIX_SOCKET_GROUP / PLUGIN_PROTOCOL_VERSIONS / port range / the cookie with another value (a host that is itself a plugin) and unrelated variables; plus Cmd.Env given by the caller as a copy of a same-family host environment, and a command value prepared earlier by a client whose Start failed its checksum; matrix enumerated + seeded combinations. Oracle = reference environment computed from the client configuration alone: cookie, exact version set, port range, client certificate iff AutoMTLS, multiplex flag iff requested, socket group/dir iff configured, host variables iff not SkipHostEnv, stdin is the host's; and end to end: the start, a dispense and a call succeed, i.e. the plugin acted on this client's configuration",
			Exhaustive: "AutoMTLS x mux x SkipHostEnv x launch x ambient-variable class"},
		Plan: func(tier string, seed uint64, stage int, prev []*h.Result) []*k.Spec {
			if stage > 0 {
				return nil
			}
			var cells []map[string]string
			for _, auto := range []string{"0", "1"} {
				for _, mux := range []string{"0", "1"} {
					for _, skip := range []string{"0", "1"} {
						for _, launch := range []string{"cmd", "runner"} {
							for _, amb := range c17Ambient {
								for _, proto := range []string{"netrpc", "grpc"} {
									if proto == "netrpc" && mux == "1" {
										continue
									}
									cells = append(cells, P("auto", auto, "mux", mux, "skip", skip, "launch", launch, "ambient", amb, "proto", proto))
									if launch == "cmd" && (amb == "family" || amb == "none" || amb == "all") {
										// the command's own environment is a copy of the host's (exec.Command + append(os.Environ(), ...)),
										// or the command value was used before by a client whose start failed
										cells = append(cells, P("auto", auto, "mux", mux, "skip", skip, "launch", launch, "ambient", amb, "proto", proto, "cmdenv", "environ"))
										cells = append(cells, P("auto", auto, "mux", mux, "skip", skip, "launch", launch, "ambient", amb, "proto", proto, "second", "1"))
										cells = append(cells, P("auto", auto, "mux", mux, "skip", skip, "launch", launch, "ambient", amb, "proto", proto, "second", "2"))
									}
								}
							}
						}
					}
				}
			}
			if tier == "selftest" {
				return seeded("C17", seed, 4, func(i int, sd uint64) *k.Spec {
					return &k.Spec{Params: cp(cells[int(k.H(sd, "cell", 0)%uint64(len(cells)))])}
				})
			}
			var out []*k.Spec
			for _, c := range cells {
				out = append(out, sp("C17", fmt.Sprintf("cell/%s/a%s/m%s/s%s/%s/%s%s%s", c["proto"], c["auto"], c["mux"], c["skip"], c["launch"], c["ambient"], c["cmdenv"], c["second"]), seed, c))
			}
			n := 300
			if tier == "thorough" {
				n = 50000
			}
			out = append(out, seeded("C17", seed, n, func(i int, sd uint64) *k.Spec {
				c := cp(cells[int(k.H(sd, "cell", 0)%uint64(len(cells)))])
				u := func(tag string, n int) int { return int(k.H(sd, tag, 0) % uint64(n)) }
				c["group"] = []string{"", "", "plugins", "2000"}[u("group", 4)]
				c["ports"] = []string{"", "11000-11010", "0-0"}[u("ports", 3)]
				c["versions"] = []string{"1", "1,2", "1,2,3"}[u("versions", 3)]
				s := &k.Spec{Seed: sd, Params: c}
				if u("noise", 3) == 0 {
					swarm(s, "client.go:Client.Start")
					if s.DelayClass == "big" {
						s.DelayClass = "mid"
					}
				}
				return s
			})...)
			return out
		},
		Run: runC17,
	})
}

func runC17(r *h.Run) {
	w := r.W
	sp := r.Spec
	auto, mux, skip := sp.P("auto", "0") == "1", sp.P("mux", "0") == "1", sp.P("skip", "0") == "1"
	launch, amb, proto := sp.P("launch", "cmd"), sp.P("ambient", "none"), sp.P("proto", "grpc")
	group, ports, versions := sp.P("group", ""), sp.P("ports", ""), sp.P("versions", "1")
	ctx := fmt.Sprintf("automtls=%v mux=%v skiphostenv=%v launch=%s ambient=%s", auto, mux, skip, launch, amb)
	cmdenv, second := sp.P("cmdenv", ""), sp.P("second", "") == "1"
	if cmdenv != "" {
		ctx += " cmd.Env=" + cmdenv
	}
	if second {
		ctx += " cmd-used-before-by-a-failed-client"
	}

	// the host's own environment: it is itself a plugin of something else
	certPEM, _ := h.SelfSignedPEM()
	ambient := map[string]string{}
	add := func(kv ...string) {
		for i := 0; i+1 < len(kv); i += 2 {
			ambient[kv[i]] = kv[i+1]
		}
	}
	if amb == "cert" || amb == "all" {
		add("PLUGIN_CLIENT_CERT", string(certPEM))
	}
	if amb == "mux" || amb == "all" {
		add("PLUGIN_MULTIPLEX_GRPC", "true")
	}
	if amb == "sockdir" || amb == "all" {
		w.Mkdir("/run")
		w.Mkdir("/run/parent-sockets")
		add("PLUGIN_UNIX_SOCKET_DIR", "/run/parent-sockets")
	}
	if amb == "sockgroup" || amb == "all" {
		add("PLUGIN_UNIX_SOCKET_GROUP", "sim")
	}
	if amb == "versions" || amb == "all" {
		add("PLUGIN_PROTOCOL_VERSIONS", "9,8")
	}
	if amb == "ports" || amb == "all" {
		add("PLUGIN_MIN_PORT", "5", "PLUGIN_MAX_PORT", "6")
	}
	if amb == "cookie" || amb == "all" {
		add(plugins.Handshake.MagicCookieKey, "parents-cookie")
	}
	if amb == "family" {
		// the host is a plugin of the same family: same cookie, its parent's negotiation variables
		add(plugins.Handshake.MagicCookieKey, plugins.Handshake.MagicCookieValue, "PLUGIN_MIN_PORT", "5", "PLUGIN_MAX_PORT", "6", "PLUGIN_PROTOCOL_VERSIONS", "9,8", "PLUGIN_MULTIPLEX_GRPC", "true")
	}
	add("UNRELATED_HOST_VAR", "from-host")
	for _, kk := range k.SortedKeys(ambient) {
		r.Host.Setenv(kk, ambient[kk])
	}
	// the host's stdin is a pipe with known contents
	sr, sw := w.NewPipe(r.Host, "host-stdin", 4096)
	sw.Write([]byte("bytes-on-the-hosts-stdin"))
	sw.Close()
	r.Host.Stdin = sr

	// the plugin records what it sees, then serves
	var seenEnv []string
	var seenStdin string
	c := h.Conf{Proto: proto, Mux: mux, Launch: launch, Name: "plugin"}
	if auto {
		c.TLS = "auto"
	}
	c.PluginMain = func(serve func()) {
		seenEnv = simos.Environ()
		b, _ := io.ReadAll(io.LimitReader(simos.GetStdin(), 100))
		seenStdin = string(b)
		serve()
	}
	sh := plugins.NewShared("v1/" + proto)
	c.Sh = sh
	c.TweakServe = func(sc *plugin.ServeConfig) {
		sc.HandshakeConfig.ProtocolVersion = 0
		sc.Plugins = nil
		sc.VersionedPlugins = map[int]plugin.PluginSet{}
		for _, v := range strings.Split(versions, ",") {
			var n int
			fmt.Sscan(v, &n)
			sc.VersionedPlugins[n] = h.PluginSet(proto, sh)
		}
	}
	var minPort, maxPort uint
	var sharedCmd *simexec.Cmd
	var specSeen, specStdinOK bool
	var specEnv []string
	c.TweakClient = func(cc *plugin.ClientConfig) {
		cc.SkipHostEnv = skip
		cc.HandshakeConfig.ProtocolVersion = 0
		set := cc.Plugins
		cc.Plugins = nil
		cc.VersionedPlugins = map[int]plugin.PluginSet{}
		for _, v := range strings.Split(versions, ",") {
			var n int
			fmt.Sscan(v, &n)
			cc.VersionedPlugins[n] = set
		}
		if group != "" {
			cc.UnixSocketConfig = &plugin.UnixSocketConfig{Group: group}
		}
		if ports != "" {
			fmt.Sscanf(ports, "%d-%d", &minPort, &maxPort)
			cc.MinPort, cc.MaxPort = minPort, maxPort
		}
		if cmdenv == "environ" && cc.Cmd != nil {
			cc.Cmd.Env = append(r.Host.Environ(), "CMD_EXTRA=1")
		}
		if sharedCmd != nil && cc.Cmd != nil {
			sharedCmd.SimName = cc.Cmd.SimName
			cc.Cmd = sharedCmd
		}
		if rf := cc.RunnerFunc; rf != nil {
			// what the custom runner is HANDED (a runner may read its specification
			// right away - a container or sudo style launcher does)
			cc.RunnerFunc = func(l hclog.Logger, spec *simexec.Cmd, tmpDir string) (runner.Runner, error) {
				specSeen = true
				specStdinOK = spec.Stdin != nil && spec.Stdin == any(simos.GetStdin())
				specEnv = append([]string(nil), spec.Env...)
				return rf(l, spec, tmpDir)
			}
		}
	}
	r.InstallPlugin(&c)
	if second && launch == "cmd" {
		// client A: other settings, a checksum that does not match - its Start
		// fails before anything is launched, but it has prepared the command
		ca := c
		ca.Mux = false
		ca.TweakClient = func(cc *plugin.ClientConfig) {
			cc.MinPort, cc.MaxPort = 31000, 31001
			cc.HandshakeConfig.ProtocolVersion = 7
			cc.SecureConfig = &plugin.SecureConfig{Checksum: []byte("not the checksum of anything....."), Hash: sha256.New()}
			sharedCmd = cc.Cmd
		}
		a := r.NewClient(ca)
		ao := r.DoNoHang("A.Start", 90*time.Second, ctx, func() (any, error) { return a.Start() })
		if ao.Err == nil {
			r.Violate("setup", "client A started despite its checksum "+ctx, "")
		}
		r.DoNoHang("A.Kill", 90*time.Second, ctx, func() (any, error) { a.Kill(); return nil, nil })
		if seenEnv != nil {
			r.Violate("setup", "client A launched the plugin "+ctx, "")
			return
		}
	}
	if sp.P("second", "") == "2" {
		// another plugin was launched, used and killed by this host before: the
		// host's stdin is only lent to a plugin, the next one gets it all the same
		ctx += " after-another-client-was-killed"
		ca := h.Conf{Proto: proto, Launch: launch, Name: "earlier", Path: "/bin/earlier"}
		r.InstallPlugin(&ca)
		a := r.NewClient(ca)
		if ao := r.DoNoHang("A.Client", 90*time.Second, ctx, func() (any, error) { return a.Client() }); ao.Err != nil || ao.Hung {
			r.Violate("setup", "earlier client "+ctx, fmt.Sprint(ao.Err))
			return
		}
		r.DoNoHang("A.Kill", 120*time.Second, ctx, func() (any, error) { a.Kill(); return nil, nil })
	}
	cl := r.NewClient(c)
	o := r.DoNoHang("Start", 90*time.Second, ctx, func() (any, error) { return cl.Start() })
	if o.Hung {
		return
	}
	if seenEnv == nil {
		r.Violate("setup", "plugin never ran "+ctx, fmt.Sprint(o.Err))
		return
	}
	// effective environment of the child: first match (the C library's view)
	eff := map[string]string{}
	for _, kv := range seenEnv {
		kk, v, ok := strings.Cut(kv, "=")
		if !ok {
			continue
		}
		if launch == "runner" {
			eff[kk] = v // the runner got a plain list: last assignment wins
		} else if _, dup := eff[kk]; !dup {
			eff[kk] = v
		}
	}
	want := func(key, val string, present bool) {
		got, has := eff[key]
		if present && (!has || got != val) {
			r.Violate("wrong-env", fmt.Sprintf("%s var=%s", ctx, key), fmt.Sprintf("plugin sees %s=%q (present=%v), the client configuration implies %q", key, firstN(got, 60), has, firstN(val, 60)))
		}
		if _, given := ambient[key]; !present && given && cmdenv == "environ" {
			// the caller put this variable into Cmd.Env itself (a copy of its own
			// environment): that is part of the configuration, not a leak
			return
		}
		if !present && key == "UNRELATED_HOST_VAR" && second {
			return // client A, which did not skip the host environment, prepared the shared command
		}
		if !present && has && got != "" {
			r.Violate("wrong-env", fmt.Sprintf("%s var=%s leaked", ctx, key), fmt.Sprintf("plugin sees %s=%q although the client configuration does not set it", key, firstN(got, 60)))
		}
	}
	want(plugins.Handshake.MagicCookieKey, plugins.Handshake.MagicCookieValue, true)
	// version list: exact set
	gotV := strings.Split(eff["PLUGIN_PROTOCOL_VERSIONS"], ",")
	wantV := strings.Split(versions, ",")
	sort.Strings(gotV)
	sort.Strings(wantV)
	if strings.Join(gotV, ",") != strings.Join(wantV, ",") {
		r.Violate("wrong-env", ctx+" var=PLUGIN_PROTOCOL_VERSIONS", fmt.Sprintf("plugin sees %q, client offers %q", eff["PLUGIN_PROTOCOL_VERSIONS"], versions))
	}
	wmin, wmax := "10000", "25000"
	if ports != "" && !(minPort == 0 && maxPort == 0) {
		wmin, wmax = fmt.Sprint(minPort), fmt.Sprint(maxPort)
	}
	want("PLUGIN_MIN_PORT", wmin, true)
	want("PLUGIN_MAX_PORT", wmax, true)
	if auto {
		if v := eff["PLUGIN_CLIENT_CERT"]; !strings.Contains(v, "BEGIN CERTIFICATE") || v == string(certPEM) {
			r.Violate("wrong-env", ctx+" var=PLUGIN_CLIENT_CERT", "AutoMTLS is on but the plugin does not see this client's certificate")
		}
	} else {
		want("PLUGIN_CLIENT_CERT", "", false)
	}
	want("PLUGIN_MULTIPLEX_GRPC", "true", mux)
	want("PLUGIN_UNIX_SOCKET_GROUP", group, group != "")
	if launch == "runner" {
		if v := eff["PLUGIN_UNIX_SOCKET_DIR"]; !strings.Contains(v, "plugin-dir") {
			r.Violate("wrong-env", ctx+" var=PLUGIN_UNIX_SOCKET_DIR", fmt.Sprintf("custom runner launch but the plugin sees socket dir %q", v))
		}
	} else {
		want("PLUGIN_UNIX_SOCKET_DIR", "", false)
	}
	want("UNRELATED_HOST_VAR", "from-host", !skip)
	if specSeen {
		if !specStdinOK {
			r.Violate("wrong-stdin", ctx+" runner-spec", "the command specification handed to RunnerFunc does not carry the host's stdin")
		}
		// the specification was complete when it was handed over: what the plugin
		// sees later is exactly that
		have := map[string]bool{}
		for _, kv := range specEnv {
			have[kv] = true
		}
		for _, kv := range seenEnv {
			if !have[kv] && strings.HasPrefix(kv, "PLUGIN_") {
				r.Violate("wrong-env", ctx+" runner-spec-incomplete", fmt.Sprintf("the plugin sees %q, which was not in the specification when RunnerFunc was called", firstN(kv, 80)))
				break
			}
		}
	}
	if seenStdin != "bytes-on-the-hosts-stdin" {
		r.Violate("wrong-stdin", ctx, fmt.Sprintf("plugin read %q from its stdin", seenStdin))
	}
	// end to end: the plugin acted on this client's configuration
	if cmdenv == "environ" && !(amb == "none" || (amb == "family" && mux)) {
		// the command's own environment asks the plugin for a mode (multiplexing,
		// client certificate, socket group) this client neither requests nor
		// overrides: whether the two then interoperate is the caller's business
		w.Probe("e2e.skipped-caller-env")
	} else if o.Err != nil {
		r.Violate("start-failed", ctx, fmt.Sprintf("Start failed: %v", o.Err))
	} else {
		do := r.DoNoHang("Dispense+call", 60*time.Second, ctx, func() (any, error) {
			cp, err := cl.Client()
			if err != nil {
				return nil, err
			}
			raw, err := cp.Dispense(h.PluginName)
			if err != nil {
				return nil, err
			}
			return raw.(plugins.Cmd).Do("tag", "")
		})
		if do.Err != nil {
			r.Violate("use-failed", ctx, fmt.Sprintf("dispense/call failed: %v", do.Err))
		}
	}
	r.DoNoHang("Kill", 120*time.Second, ctx, func() (any, error) { cl.Kill(); return nil, nil })
}
