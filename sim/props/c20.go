package props

import (
	"fmt"
	"runtime"
	"sort"
	"sync"
	"time"

	plugin "simworld/goplugin"
	"simworld/h"
	"simworld/k"
	"simworld/plugins"
)

// C20: concurrent use of clients and brokers is free of data races and panics.

func init() {
	Register(&Prop{ID: "C20",
		Meta: Meta{Stages: 2, Level: "exploration", Race: true,
			Rule: "worker built with the Go race detector (on the seeded, single-P runtime: the happens-before analysis is unaffected, interleavings are the simulator's); the process-wide list of managed clients (CleanupClients while other goroutines create managed clients); 3-8 goroutines issue drawn public operations against ONE client: Start, Client, Protocol, NegotiatedVersion, ReattachConfig, ID, Exited, Dispense, calls on dispensed clients, broker NextId/Accept/Dial with distinct IDs on the host broker and, through plugin-side commands, on the plugin broker, Ping, and in half of the runs Kill (or a plugin-side GRPCServer stop via the controller) racing the operations in flight; net/rpc, gRPC, gRPC+mux; in a fifth of the runs the plugin fails to start (exits early, closes stderr, bad handshake, silent) and 2-5 goroutines use the client-level operations and Kill; schedule and wake-up order noise everywhere. Oracle: no race report whose stack contains a go-plugin frame (reports confined to harness, grpc-go or yamux are printed, not counted), no panic, no call hangs, and the multiset of NextId results on each broker has no duplicate"},
		Plan: func(tier string, seed uint64, stage int, prev []*h.Result) []*k.Spec {
			if stage > 0 {
				// shutdown placed at every statement of an operation in flight (no
				// race detector needed for these: a double close or a send on a
				// closed channel is a panic)
				return killRaceSpecs("C20", tier, seed, stage, prev)
			}
			n := 200
			if tier == "thorough" {
				n = 20000
			}
			if tier == "selftest" {
				n = 3
			}
			var pre []*k.Spec
			if tier != "selftest" {
				pre = killRaceSpecs("C20", tier, seed, 0, nil)
			}
			if tier != "selftest" {
				// the process-wide list of managed clients: CleanupClients against
				// goroutines that keep creating managed clients
				nm := 6
				if tier == "thorough" {
					nm = 150
				}
				for v := 0; v < nm; v++ {
					s := sp("C20", fmt.Sprintf("managed-list/%d", v), seed+uint64(v)*7919, cp(c03Confs[v%2], "race", "1", "managed", "1"))
					// (yields only, no sleeps: inside the bubble every advance of the
					// clock is a barrier that orders all goroutines - synctest tells the
					// race detector so - and two accesses separated by one are no race)
					s.HotPermille, s.DelayClass = 0, ""
					s.Focus = "client.go:CleanupClients"
					pre = append(pre, s)
				}
			}
			return append(pre, seeded("C20", seed, n, func(i int, sd uint64) *k.Spec {
				s := &k.Spec{Seed: sd, Params: cp(c03Confs[i%3], "race", "1", "killracing", []string{"0", "1"}[k.H(sd, "kr", 0)%2])}
				if i%5 == 4 {
					// a plugin whose start fails: the goroutines use the client-level operations only
					s.Params["failing"] = c20Failing[int(k.H(sd, "failing", 0)%uint64(len(c20Failing)))]
				}
				swarm(s, "")
				if s.HotPermille == 0 {
					s.HotPermille = 50
					s.DelayClass = "tiny"
				}
				if k.H(sd, "focus", 0)%2 == 0 {
					s.Focus = "NextId,getStream,getClientStream,getServerStream,timeoutWait"
				}
				if s.DelayClass == "big" {
					s.DelayClass = "mid"
				}
				return s
			})...)
		},
		Run: runC20,
	})
}

var c20Failing = []string{"exits-early", "exits-early-stderr", "closes-stderr", "bad-handshake", "bad-handshake-more", "silent", "listener-gone", "listener-gone"}

// runC20Failing: goroutines use one client whose plugin fails to start.
func runC20Failing(r *h.Run, kind string) {
	w := r.W
	c := r.ConfFromParams()
	c.Timeout = 3 * time.Second
	c.Path = "/bin/" + kind
	if w.Range("launch", 2) == 1 {
		c.Launch = "runner"
	}
	ctx := fmt.Sprintf("conf=%s plugin=%s", c.String(), kind)
	sc := &h.Script{}
	switch kind {
	case "exits-early":
		sc.End = "exit:3"
	case "exits-early-stderr":
		sc.Steps, sc.End = []h.ScriptStep{h.Err("fatal: cannot start\n")}, "exit:3"
	case "closes-stderr":
		sc.End = "closeerr"
	case "bad-handshake":
		sc.Steps = []h.ScriptStep{h.Out("this is not a handshake\n")}
	case "bad-handshake-more":
		sc.Steps = []h.ScriptStep{h.Out("usage: tool\n  -h help\n"), h.Err("tool: unknown invocation\n"), h.Out("more\n").After(time.Millisecond)}
	case "listener-gone":
		// a well-formed line for an address nobody listens on (the plugin closed
		// its listener right after printing it): Start succeeds, every connect fails
		sc.Steps = []h.ScriptStep{h.Out("1|1|unix|/tmp/listener-gone.sock|" + c.Proto + "|\n")}
	}
	r.InstallScript(c.Path, sc)
	cl := r.NewClient(c)
	ng := 2 + w.Range("g/n", 4)
	nops := 2 + w.Range("g/ops", 4)
	ops := []string{"Start", "Start", "Client", "Protocol", "ID", "Exited", "ReattachConfig", "Kill"}
	var wg sync.WaitGroup
	for g := 0; g < ng; g++ {
		g := g
		wg.Add(1)
		go k.Trap(func() {
			defer wg.Done()
			for i := 0; i < nops; i++ {
				op := ops[w.Range(fmt.Sprintf("op/g%d", g), len(ops))]
				o := r.Do(fmt.Sprintf("g%d.%s", g, op), 120*time.Second, func() (any, error) {
					switch op {
					case "Start":
						return cl.Start()
					case "Client":
						return cl.Client()
					case "Protocol":
						return cl.Protocol(), nil
					case "ID":
						return cl.ID(), nil
					case "Exited":
						return cl.Exited(), nil
					case "ReattachConfig":
						return cl.ReattachConfig(), nil
					case "Kill":
						cl.Kill()
					}
					return nil, nil
				})
				if o.Hung {
					r.Violate("hang", fmt.Sprintf("op=%s %s", op, ctx), r.HostStacks("goplugin"))
					return
				}
			}
		})
	}
	wg.Wait()
	if o := r.Do("Kill(final)", 150*time.Second, func() (any, error) { cl.Kill(); return nil, nil }); o.Hung {
		r.Violate("hang", "op=Kill "+ctx, r.HostStacks("goplugin"))
	}
	time.Sleep(5 * time.Second)
}

// runC20Managed: three running managed clients; CleanupClients runs while two
// goroutines keep creating managed clients (never started) and a third reads
// the state of the running ones.
func runC20Managed(r *h.Run) {
	w := r.W
	base := r.ConfFromParams()
	ctx := "conf=" + base.String() + " managed-list"
	var cls []*plugin.Client
	for i := 0; i < 3; i++ {
		c := base
		c.Name = fmt.Sprintf("plugin%d", i)
		c.Managed = true
		r.InstallPlugin(&c)
		cl := r.NewClient(c)
		if o := r.DoNoHang("Client", 120*time.Second, ctx, func() (any, error) { return cl.Client() }); o.Err != nil || o.Hung {
			r.Violate("setup", "managed client "+ctx, fmt.Sprint(o.Err))
			return
		}
		cls = append(cls, cl)
	}
	var wg sync.WaitGroup
	for g := 0; g < 3; g++ {
		wg.Add(1)
		go k.Trap(func() {
			defer wg.Done()
			for i := 0; i < 12; i++ {
				c := base
				c.Name, c.Path, c.Managed = fmt.Sprintf("never-started-%d", i), "/bin/never-started", true
				r.NewClient(c)
				for y := w.Range("spin/gap", 4); y > 0; y-- {
					runtime.Gosched()
				}
			}
		})
	}
	wg.Add(1)
	go k.Trap(func() {
		defer wg.Done()
		for i := 0; i < 6; i++ {
			for _, cl := range cls {
				cl.Exited()
				cl.ID()
			}
			runtime.Gosched()
		}
	})
	o := r.Do("CleanupClients", 150*time.Second, func() (any, error) { plugin.CleanupClients(); return nil, nil })
	wg.Wait()
	if o.Hung {
		r.Violate("hang", "op=CleanupClients "+ctx, r.HostStacks("goplugin"))
		return
	}
	for i, cl := range cls {
		if p := w.ProcByName(fmt.Sprintf("plugin%d", i)); p != nil && p.Alive() {
			r.Violate("process-left-behind", ctx, fmt.Sprintf("managed client %d was running when CleanupClients was called and is still running after it returned", i))
		}
		_ = cl
	}
	w.Probe("managed-list.checked")
	r.Do("CleanupClients#2", 150*time.Second, func() (any, error) { plugin.CleanupClients(); return nil, nil })
}

func runC20(r *h.Run) {
	if r.Spec.P("killrace", "") != "" {
		runKillRace(r, "C20")
		return
	}
	if r.Spec.P("managed", "") == "1" {
		runC20Managed(r)
		return
	}
	if f := r.Spec.P("failing", ""); f != "" {
		runC20Failing(r, f)
		return
	}
	w := r.W
	c := r.ConfFromParams()
	ctx := "conf=" + c.String()
	r.InstallPlugin(&c)
	cl := r.NewClient(c)
	ng := 3 + w.Range("g/n", 6)
	nops := 3 + w.Range("g/ops", 5)
	killRace := r.Spec.P("killracing", "0") == "1"

	var mu sync.Mutex
	hostIDs, pluginIDs := map[string]int{}, map[string]int{}
	var cmds []plugins.Cmd
	getCmd := func() plugins.Cmd {
		mu.Lock()
		defer mu.Unlock()
		if len(cmds) == 0 {
			return nil
		}
		return cmds[len(cmds)-1]
	}
	idBase := uint32(5000)
	nextPair := func() uint32 { mu.Lock(); defer mu.Unlock(); idBase++; return idBase }

	opNames := []string{"Start", "Client", "Protocol", "NegotiatedVersion", "ReattachConfig", "ID", "Exited", "Dispense", "Call", "HostNextId", "PluginNextId", "PairH2P", "PairP2H", "Ping",
		// brokers get extra weight: most of the shared mutable state lives there
		"PairH2P", "PairP2H", "HostNextId", "PluginNextId", "Dispense", "PairH2P", "PairP2H", "HostAcceptNoDial", "PluginAcceptNoDial", "HostDialNoAccept"}
	// every run begins with a connected client and ends with an ID burst
	if o := r.Do("warmup", 120*time.Second, func() (any, error) {
		cp, err := cl.Client()
		if err != nil {
			return nil, err
		}
		raw, err := cp.Dispense(h.PluginName)
		if err != nil {
			return nil, err
		}
		mu.Lock()
		cmds = append(cmds, raw.(plugins.Cmd))
		mu.Unlock()
		return nil, nil
	}); o.Err != nil || o.Hung {
		r.Violate("setup", "warmup "+ctx, fmt.Sprint(o.Err))
		return
	}
	var wg sync.WaitGroup
	for g := 0; g < ng; g++ {
		g := g
		wg.Add(1)
		go k.Trap(func() {
			defer wg.Done()
			for i := 0; i < nops; i++ {
				op := opNames[w.Range(fmt.Sprintf("op/g%d", g), len(opNames))]
				o := r.Do(fmt.Sprintf("g%d.%s", g, op), 120*time.Second, func() (any, error) {
					switch op {
					case "Start":
						return cl.Start()
					case "Client":
						return cl.Client()
					case "Protocol":
						return cl.Protocol(), nil
					case "NegotiatedVersion":
						// documented as valid only after Start has been called: call
						// it the way the API permits, after a Start of our own returned
						if _, err := cl.Start(); err != nil {
							return nil, err
						}
						return cl.NegotiatedVersion(), nil
					case "ReattachConfig":
						return cl.ReattachConfig(), nil
					case "ID":
						return cl.ID(), nil
					case "Exited":
						return cl.Exited(), nil
					case "Dispense":
						cp, err := cl.Client()
						if err != nil {
							return nil, err
						}
						raw, err := cp.Dispense(h.PluginName)
						if err != nil {
							return nil, err
						}
						mu.Lock()
						cmds = append(cmds, raw.(plugins.Cmd))
						mu.Unlock()
						return nil, nil
					case "Ping":
						cp, err := cl.Client()
						if err != nil {
							return nil, err
						}
						return nil, cp.Ping()
					}
					cmd := getCmd()
					if cmd == nil {
						return nil, nil
					}
					switch op {
					case "Call":
						return cmd.Do("tag", "")
					case "HostNextId":
						var id uint32
						switch cc := cmd.(type) {
						case *plugins.RPCClient:
							id = cc.Broker.NextId()
						case *plugins.GRPCClient:
							id = cc.Broker.NextId()
						}
						mu.Lock()
						hostIDs[fmt.Sprintf("%p/%d", brokerOf(cmd), id)]++
						mu.Unlock()
					case "PluginNextId":
						v, err := cmd.Do("nextid", "")
						if err == nil {
							mu.Lock()
							pluginIDs[fmt.Sprintf("%d/%s", c20BrokerKey(cmd), v)]++
							mu.Unlock()
						}
					case "HostAcceptNoDial":
						// an accept nobody dials: it sits in the broker for its whole timeout
						id := nextPair()
						h.HostAcceptWait(r, cmd, id)
					case "PluginAcceptNoDial":
						id := nextPair()
						if _, ok := cmd.(*plugins.RPCClient); ok {
							cmd.Do("acceptwait", fmt.Sprint(id))
						} else {
							cmd.Do("accept", fmt.Sprint(id))
						}
					case "HostDialNoAccept":
						id := nextPair()
						h.HostDialEcho(cmd, id, 10)
					case "PairH2P":
						id := nextPair()
						cmd.Do("accept", fmt.Sprint(id))
						return h.HostDialEcho(cmd, id, 100)
					case "PairP2H":
						id := nextPair()
						h.HostAccept(r, cmd, id)
						return cmd.Do("dial", fmt.Sprint(id))
					}
					return nil, nil
				})
				if o.Hung {
					r.Violate("hang", fmt.Sprintf("op=%s %s", op, ctx), fmt.Sprintf("%s still outstanding after %v\n%s", op, o.Took, r.HostStacks("goplugin")))
					return
				}
			}
		})
	}
	// ID burst: all goroutines allocate IDs on both brokers at once
	var bwg sync.WaitGroup
	burst := func() {
		for g := 0; g < ng; g++ {
			bwg.Add(1)
			go k.Trap(func() {
				defer bwg.Done()
				cmd := getCmd()
				if cmd == nil {
					return
				}
				for i := 0; i < 4; i++ {
					var id uint32
					switch cc := cmd.(type) {
					case *plugins.RPCClient:
						id = cc.Broker.NextId()
					case *plugins.GRPCClient:
						id = cc.Broker.NextId()
					}
					mu.Lock()
					hostIDs[fmt.Sprintf("%p/%d", brokerOf(cmd), id)]++
					mu.Unlock()
					if v, err := cmd.Do("nextid", ""); err == nil {
						mu.Lock()
						pluginIDs[fmt.Sprintf("%d/%s", c20BrokerKey(cmd), v)]++
						mu.Unlock()
					}
				}
			})
		}
		bwg.Wait()
	}
	burst()
	if killRace {
		wg.Add(1)
		go k.Trap(func() {
			defer wg.Done()
			time.Sleep(time.Duration(w.Range("kill/at", 6)) * 200 * time.Microsecond)
			if w.Range("kill/how", 2) == 0 {
				r.Do("Kill(racing)", 150*time.Second, func() (any, error) { cl.Kill(); return nil, nil })
			} else if p := w.ProcByName("plugin"); p != nil {
				p.Crash(137, "crash racing operations")
			}
		})
	}
	wg.Wait()
	for key, n := range hostIDs {
		if n > 1 {
			r.Violate("duplicate-id", ctx+" side=host", fmt.Sprintf("NextId returned %s %d times", key, n))
		}
	}
	// plugin-side ids: net/rpc has one broker per connection (= per client here), gRPC one per server
	var dups []string
	for key, n := range pluginIDs {
		if n > 1 {
			dups = append(dups, fmt.Sprintf("%s x%d", key, n))
		}
	}
	sort.Strings(dups)
	if len(dups) > 0 {
		r.Violate("duplicate-id", ctx+" side=plugin", fmt.Sprintf("plugin-side NextId returned duplicates: %v", dups))
	}
	// two clients attached to the same plugin (the original and a reattached
	// one) shut it down at the same time: two shutdown requests race on the
	// plugin side
	if !c.Mux && c.TLS != "auto" && !killRace && w.Range("doublekill", 2) == 1 {
		if rc := cl.ReattachConfig(); rc != nil {
			b := reattachClient(r, c.Proto, rc, "B")
			if o := r.Do("B.Client", 60*time.Second, func() (any, error) { return b.Client() }); o.Err == nil && !o.Hung {
				w.Probe("double-kill")
				var kwg sync.WaitGroup
				kwg.Add(1)
				go k.Trap(func() {
					defer kwg.Done()
					r.Do("B.Kill", 150*time.Second, func() (any, error) { b.Kill(); return nil, nil })
				})
				r.Do("A.Kill", 150*time.Second, func() (any, error) { cl.Kill(); return nil, nil })
				kwg.Wait()
			}
		}
	}
	ko := r.Do("Kill", 150*time.Second, func() (any, error) { cl.Kill(); return nil, nil })
	if ko.Hung {
		r.Violate("hang", "op=Kill "+ctx, r.HostStacks("goplugin"))
	}
	_ = plugin.ProtocolGRPC
}

func brokerOf(cmd plugins.Cmd) any {
	switch cc := cmd.(type) {
	case *plugins.RPCClient:
		return cc.Broker
	case *plugins.GRPCClient:
		return cc.Broker
	}
	return nil
}

// c20BrokerKey: plugin-side NextId of net/rpc dispensed clients all hit the one
// broker of the connection; so does gRPC. One key per run is enough.
func c20BrokerKey(cmd plugins.Cmd) int { return 0 }
