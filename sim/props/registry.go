// Package props holds one workload + oracle per property.
package props

import (
	"fmt"
	"sort"

	"simworld/h"
	"simworld/k"
)

// Meta describes a check for the evidence file.
type Meta struct {
	ID          string   `json:"id"`
	Level       string   `json:"level"` // exploration | fault_enumeration
	Race        bool     `json:"race"`
	Rule        string   `json:"rule"`
	Assumptions []string `json:"assumptions"`
	Exhaustive  string   `json:"exhaustive"`
	Components  string   `json:"components"`
	Stages      int      `json:"stages"` // >1: later stages are planned from the results of earlier ones
}

const Components = "REAL: all of go-plugin (client, server, brokers, grpcmux, cmdrunner, stdio, mtls, log parsing) compiled from /repo's working tree with imports of os/net/os-exec/os-signal/os-user/fmt/log/runtime redirected and schedule points woven; yamux v0.1.1, grpc-go v1.58.3, net/rpc, crypto/tls, hclog, protobuf unmodified. STUB: kernel (process table, pipes, sockets, file system, environment, signals), clock (testing/synctest), crypto randomness (seeded), four patches to the Go scheduler. HARNESS: plugin implementations, scripted plugins, intruders, workload generators, oracles."

var CommonAssumptions = []string{
	"the simulated kernel models Linux process/pipe/unix-socket semantics faithfully for the calls go-plugin makes (checked by hand against os/exec and net; byte streams never lose, duplicate or reorder data)",
	"one P, no preemption: interleavings are explored at blocking operations and at the schedule points woven before every statement of go-plugin; weak-memory effects are out of scope",
	"a clean batch is evidence over the sampled schedules and the enumerated fault points, not a proof",
}

type Prop struct {
	ID   string
	Meta Meta
	// Plan returns the runs of the given stage (0,1,...) for a tier; prev are
	// the results of the previous stage. An empty plan ends the check.
	Plan func(tier string, seed uint64, stage int, prev []*h.Result) []*k.Spec
	Run  func(r *h.Run)
}

var Registry = map[string]*Prop{}

func Register(p *Prop) { Registry[p.ID] = p }

func IDs() []string {
	var ids []string
	for id := range Registry {
		ids = append(ids, id)
	}
	sort.Strings(ids)
	return ids
}

// helpers for plans

func sp(prop, cas string, seed uint64, params map[string]string) *k.Spec {
	return &k.Spec{Prop: prop, Case: cas, Seed: seed, Params: params}
}

func P(kv ...string) map[string]string {
	m := map[string]string{}
	for i := 0; i+1 < len(kv); i += 2 {
		m[kv[i]] = kv[i+1]
	}
	return m
}

func cp(m map[string]string, kv ...string) map[string]string {
	o := map[string]string{}
	for k, v := range m {
		o[k] = v
	}
	for i := 0; i+1 < len(kv); i += 2 {
		o[kv[i]] = kv[i+1]
	}
	return o
}

// seeded adds n seeded runs with swarm settings drawn from the seed.
func seeded(prop string, base uint64, n int, mk func(i int, seed uint64) *k.Spec) []*k.Spec {
	var out []*k.Spec
	for i := 0; i < n; i++ {
		seed := base<<20 + uint64(i)
		s := mk(i, seed)
		if s == nil {
			continue
		}
		s.Prop = prop
		s.Seed = seed
		// one seeded run in six with a Windows-style plugin process (TCP
		// listeners, main and brokered), half of those with a Windows-style host
		// as well - for the properties whose workload goes through Client+Serve
		if u := k.H(seed, "goos", 0); tcpProps[prop] && s.Params != nil && s.Params["pgoos"] == "" && u%6 == 0 {
			s.Params["pgoos"] = "windows"
			if (u>>8)%2 == 0 {
				s.Params["hgoos"] = "windows"
			}
		}
		if s.Case == "" {
			s.Case = fmt.Sprintf("seeded/%d", i)
		}
		out = append(out, s)
	}
	return out
}

// swarm draws schedule-noise settings for a seeded run from its seed.
func swarm(s *k.Spec, focus string) {
	if s.Seed == 0 {
		// (every seeded run once drew the SAME settings because the seed was
		// filled in only after this call)
		panic("swarm: the spec has no seed yet")
	}
	u := k.H(s.Seed, "swarm", 0)
	switch u % 10 {
	case 0, 1:
		// quiet: no schedule noise
	case 2, 3, 4, 5:
		s.HotPermille = []int{30, 80, 150, 300}[(u>>8)%4]
		s.DelayClass = "tiny"
	case 6, 7:
		s.HotPermille = []int{30, 80, 150}[(u>>8)%3]
		s.DelayClass = "mid"
	case 8:
		s.HotPermille = []int{20, 50}[(u>>8)%2]
		s.DelayClass = "big"
	case 9:
		s.Focus = focus
		s.DelayClass = []string{"tiny", "mid"}[(u>>8)%2]
	}
	if (u>>16)%3 == 0 && focus != "" && s.Focus == "" {
		s.Focus = focus
	}
	// wake-up order: in half of the runs some wake-ups queue behind the
	// runnable goroutines instead of running next
	s.Wake = []int{0, 0, 0, 0, 50, 200, 500, 900}[(u>>24)%8]
}

var tcpProps = map[string]bool{"C03": true, "C04": true, "C06": true, "C07": true, "C09": true, "C11": true, "C12": true, "C14": true, "C15": true, "C18": true, "C20": true}
