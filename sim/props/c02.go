package props

import (
	"errors"
	"fmt"
	"sort"
	"strconv"
	"strings"
	"sync"
	"time"

	plugin "simworld/goplugin"
	"simworld/goplugin/runner"
	"simworld/h"
	"simworld/k"
	"simworld/plugins"
	"simworld/shim/simexec"

	hclog "github.com/hashicorp/go-hclog"
)

// C02: version negotiation settles both sides on the highest common version.

// a side's configuration: sorted list of versions; legacy: the lowest one is
// given through HandshakeConfig.ProtocolVersion + Plugins.
type verSide struct {
	versions []int
	legacy   bool
	// legacyHigh: it is the HIGHEST version that goes through the legacy
	// fields ("H" prefix) - the documented upgrade layout: ProtocolVersion and
	// Plugins describe the current version, VersionedPlugins the older ones
	legacyHigh bool
}

func parseSide(s string) verSide {
	var vs verSide
	if strings.HasPrefix(s, "L") {
		vs.legacy = true
		s = s[1:]
	} else if strings.HasPrefix(s, "H") {
		vs.legacy, vs.legacyHigh = true, true
		s = s[1:]
	}
	for _, p := range strings.Split(s, ",") {
		if p == "" {
			continue
		}
		n, _ := strconv.Atoi(p)
		vs.versions = append(vs.versions, n)
	}
	sort.Ints(vs.versions)
	return vs
}

func sideString(vs []int, legacy bool) string {
	var ss []string
	for _, v := range vs {
		ss = append(ss, strconv.Itoa(v))
	}
	s := strings.Join(ss, ",")
	if legacy {
		s = "L" + s
	}
	return s
}

// protoOf: bit v of mask set => version v is served over gRPC.
func protoOf(mask, v int) string {
	if mask&(1<<uint(v)) != 0 {
		return "grpc"
	}
	return "netrpc"
}

func subsets(univ []int) [][]int {
	var out [][]int
	for m := 1; m < 1<<uint(len(univ)); m++ {
		var s []int
		for i, v := range univ {
			if m&(1<<uint(i)) != 0 {
				s = append(s, v)
			}
		}
		out = append(out, s)
	}
	return out
}

func init() {
	Register(&Prop{ID: "C02",
		Meta: Meta{Level: "exploration",
			Rule:       "real Client and real Serve in two simulated processes; host and plugin each configured with a set of application versions (VersionedPlugins, optionally the lowest one through the legacy ProtocolVersion+Plugins fields), each version's plugin set speaking net/rpc or gRPC and answering an identity tag v<k>/<proto>; the version list handed to the plugin is left intact, deleted (old host) or partly corrupted by a runner wrapper. Complete enumeration of all pairs of non-empty subsets of {1,2,3} x all 8 protocol assignments x legacy folding on neither/host/plugin side (1176 runs), the upgrade layout (the HIGHEST version through the legacy fields) against hosts with and without a version list, plus version 0, sets over {0..4}, corrupted lists and schedule noise in the seeded part. Oracle = reference: highest common version, else (no list) the plugin's lowest, else start error naming the incompatibility with the process terminated; compared against the version field of the raw handshake line (kernel tap), NegotiatedVersion(), Protocol() and the tag answered through a dispensed client",
			Exhaustive: "all pairs of non-empty subsets of {1,2,3} x protocol assignment x legacy folding {none, host, plugin}"},
		Plan: func(tier string, seed uint64, stage int, prev []*h.Result) []*k.Spec {
			if stage > 0 {
				return nil
			}
			var out []*k.Spec
			if tier != "selftest" {
				subs := subsets([]int{1, 2, 3})
				for _, hs := range subs {
					for _, ps := range subs {
						for mask := 0; mask < 16; mask += 2 { // bits 1..3
							for _, leg := range []string{"none", "host", "plugin"} {
								out = append(out, sp("C02", fmt.Sprintf("enum/h%s/p%s/m%d/%s", sideString(hs, false), sideString(ps, false), mask, leg), seed,
									P("host", sideString(hs, leg == "host"), "plugin", sideString(ps, leg == "plugin"), "mask", strconv.Itoa(mask), "env", "normal")))
							}
						}
					}
				}
			}
			if tier != "selftest" {
				// the upgrade layout: the highest version through the legacy fields
				for _, pair := range [][2]string{{"1", "H1,2"}, {"2", "H1,2"}, {"1,2", "H1,2"}, {"L1", "H1,2"}, {"3", "H1,2"}, {"1", "H1,3"}, {"L2", "H1,2,3"}, {"H1,2", "1,2"}, {"H1,2", "H2,3"}, {"H2,3", "1"}} {
					for _, env := range []string{"normal", "delete", "empty", "corrupt-all"} {
						for _, m := range []string{"0", "4", "2", "10"} {
							out = append(out, sp("C02", fmt.Sprintf("upgrade-layout/h%s/p%s/%s/m%s", pair[0], pair[1], env, m), seed, P("host", pair[0], "plugin", pair[1], "mask", m, "env", env)))
						}
					}
				}
			}
			if tier != "selftest" {
				// the host is itself a plugin of another host: its own environment
				// carries a version list, which must not decide anything here
				for _, inh := range c02Inherited {
					for _, pair := range [][2]string{{"1,2", "1,2"}, {"2", "1,2"}, {"1,2,3", "L1,3"}, {"L1,2", "2,3"}, {"3", "1,2"}} {
						out = append(out, sp("C02", fmt.Sprintf("nested/%s/h%s/p%s", inh, pair[0], pair[1]), seed, P("host", pair[0], "plugin", pair[1], "mask", "4", "env", "normal", "inherit", inh)))
					}
				}
			}
			if tier != "selftest" {
				// version numbers at the edges of the integer range, the list in every order
				for _, hp := range [][2]string{{"-2,2,3,9223372036854775807", "2,3"}, {"-2,3,9223372036854775807", "2,3"}, {"-9223372036854775808,1,2,9223372036854775807", "1,2"}} {
					n := 24
					if strings.Count(hp[0], ",") == 2 {
						n = 6
					}
					for kth := 0; kth < n; kth++ {
						out = append(out, sp("C02", fmt.Sprintf("extreme/h%s/p%s/perm%d", hp[0], hp[1], kth), seed, P("host", hp[0], "plugin", hp[1], "mask", "8", "env", fmt.Sprintf("perm:%d", kth))))
					}
				}
				// the same ClientConfig value used for two clients in a row
				for _, first := range []string{"1", "2", "0", "L1", "3"} {
					for _, pair := range [][2]string{{"1,2", "2"}, {"1,2", "1,2"}, {"1,2", "0"}, {"L1,2", "2"}, {"2,3", "1,3"}, {"1,2", "0,1"}} {
						for _, m := range []string{"4", "0"} {
							out = append(out, sp("C02", fmt.Sprintf("reuse/first%s/h%s/p%s/m%s", first, pair[0], pair[1], m), seed, P("host", pair[0], "plugin", pair[1], "mask", m, "env", "normal", "first", first)))
							if !strings.HasPrefix(pair[0], "L") {
								hv := strings.Split(pair[0], ",")
								out = append(out, sp("C02", fmt.Sprintf("reuse/first%s/h%s/p%s/m%s/pv", first, pair[0], pair[1], m), seed, P("host", pair[0], "plugin", pair[1], "mask", m, "env", "normal", "first", first, "hostpv", hv[len(hv)-1])))
							}
						}
					}
				}
			}
			n := 500
			if tier == "thorough" {
				n = 100000
			}
			if tier == "selftest" {
				n = 6
			}
			all := subsets([]int{0, 1, 2, 3, 4})
			out = append(out, seeded("C02", seed, n, func(i int, sd uint64) *k.Spec {
				u := func(tag string, n int) int { return int(k.H(sd, tag, 0) % uint64(n)) }
				hs, ps := all[u("h", len(all))], all[u("p", len(all))]
				env := []string{"normal", "normal", "delete", "corrupt-mid", "corrupt-all", "empty", "dup"}[u("env", 7)]
				s := &k.Spec{Seed: sd, Params: P("host", sideString(hs, u("hl", 3) == 0), "plugin", sideString(ps, u("pl", 3) == 0), "mask", strconv.Itoa(u("mask", 32)), "env", env,
					"nogrpcserver", b2s(u("ngs", 6) == 0))}
				if u("first", 4) == 0 {
					fs := all[u("fs", len(all))]
					s.Params["first"] = sideString(fs, u("fl", 3) == 0)
				}
				if env == "normal" && u("inh", 3) == 0 {
					s.Params["inherit"] = c02Inherited[u("inhv", len(c02Inherited))]
				}
				if u("noise", 2) == 0 {
					swarm(s, "server.go:protocolVersion,client.go:Client.checkProtoVersion")
					if s.DelayClass == "big" {
						s.DelayClass = "mid"
					}
				}
				return s
			})...)
			return out
		},
		Run: runC02,
	})
}

// permutation returns the k-th permutation (factorial number system) of items.
func permutation(items []string, k int) []string {
	rest := append([]string(nil), items...)
	var out []string
	for n := len(rest); n > 0; n-- {
		f := 1
		for i := 2; i < n; i++ {
			f *= i
		}
		i := (k / f) % n
		k %= f
		out = append(out, rest[i])
		rest = append(rest[:i], rest[i+1:]...)
	}
	return out
}

func buildSets(vs verSide, mask int, tagPrefix string, shared map[int]*plugins.Shared) (legacyVer int, legacySet plugin.PluginSet, versioned map[int]plugin.PluginSet) {
	versioned = map[int]plugin.PluginSet{}
	for i, v := range vs.versions {
		proto := protoOf(mask, v)
		sh := plugins.NewShared(fmt.Sprintf("%sv%d/%s", tagPrefix, v, proto))
		if shared != nil {
			shared[v] = sh
		}
		set := h.PluginSet(proto, sh)
		if vs.legacy && ((!vs.legacyHigh && i == 0) || (vs.legacyHigh && i == len(vs.versions)-1)) {
			legacyVer, legacySet = v, set
			continue
		}
		versioned[v] = set
	}
	if len(versioned) == 0 {
		versioned = nil
	}
	return
}

var c02Inherited = []string{"1", "7", "2,3", "x", "0"}

func runC02(r *h.Run) {
	w := r.W
	if inh := r.Spec.P("inherit", ""); inh != "" {
		r.Host.Setenv("PLUGIN_PROTOCOL_VERSIONS", inh)
		w.CountFault("env.inherited-versions")
	}
	hs, ps := parseSide(r.Spec.P("host", "1")), parseSide(r.Spec.P("plugin", "1"))
	mask := r.Spec.PI("mask", 0)
	envMode := r.Spec.P("env", "normal")
	noGRPCServer := r.Spec.P("nogrpcserver", "0") == "1"
	ctx := fmt.Sprintf("host=%s plugin=%s env=%s", r.Spec.P("host", ""), r.Spec.P("plugin", ""), envMode)
	if r.Spec.P("inherit", "") != "" {
		ctx += " host-env-list=" + r.Spec.P("inherit", "")
	}

	// plugin program
	pShared := map[int]*plugins.Shared{}
	r.W.RegisterProgram("/bin/vplugin", []byte("#!vplugin"), func() {
		lv, ls, vers := buildSets(ps, mask, "", pShared)
		sc := &plugin.ServeConfig{HandshakeConfig: plugins.Handshake, VersionedPlugins: vers}
		sc.HandshakeConfig.ProtocolVersion = 0
		if ls != nil {
			sc.HandshakeConfig.ProtocolVersion = uint(lv)
			sc.Plugins = ls
		}
		if !noGRPCServer {
			sc.GRPCServer = plugin.DefaultGRPCServer
		}
		plugin.Serve(sc)
	})
	// raw handshake line tap
	var lineMu sync.Mutex
	var rawOut []byte
	w.OnPipeWrite = func(pipe string, p *k.Proc, data []byte) {
		if pipe == "stdout.plugin" {
			lineMu.Lock()
			rawOut = append(rawOut, data...)
			lineMu.Unlock()
		}
	}
	// host
	lv, ls, vers := buildSets(hs, mask, "host-", nil)
	cfg := &plugin.ClientConfig{HandshakeConfig: plugins.Handshake, VersionedPlugins: vers,
		AllowedProtocols: []plugin.Protocol{plugin.ProtocolNetRPC, plugin.ProtocolGRPC}, Logger: r.Logger("host"), StartTimeout: 20 * time.Second}
	cfg.HandshakeConfig.ProtocolVersion = 0
	if ls != nil {
		cfg.HandshakeConfig.ProtocolVersion = uint(lv)
		cfg.Plugins = ls
	}
	if pv := r.Spec.P("hostpv", ""); pv != "" && ls == nil {
		// HandshakeConfig.ProtocolVersion names one of the versioned sets, no legacy Plugins
		n, _ := strconv.Atoi(pv)
		cfg.HandshakeConfig.ProtocolVersion = uint(n)
		ctx += " host-protocolversion=" + pv
	}
	var listSent string
	prog, procName := "/bin/vplugin", "plugin"
	cfg.RunnerFunc = func(l hclog.Logger, cmd *simexec.Cmd, tmpDir string) (runner.Runner, error) {
		cmd.Path, cmd.Args, cmd.SimName = prog, []string{prog}, procName
		// the version list as the client built it, then what an old or broken host would hand over
		var env []string
		for _, kv := range cmd.Env {
			if strings.HasPrefix(kv, "PLUGIN_PROTOCOL_VERSIONS=") {
				val := strings.TrimPrefix(kv, "PLUGIN_PROTOCOL_VERSIONS=")
				listSent = val
				parts := strings.Split(val, ",")
				switch envMode {
				case "delete":
					w.CountFault("env.delete-versions")
					continue
				case "empty":
					w.CountFault("env.corrupt-versions")
					kv = "PLUGIN_PROTOCOL_VERSIONS="
				case "corrupt-mid":
					w.CountFault("env.corrupt-versions")
					parts = append(parts[:len(parts)/2], append([]string{"x7"}, parts[len(parts)/2:]...)...)
					kv = "PLUGIN_PROTOCOL_VERSIONS=" + strings.Join(parts, ",")
				case "corrupt-all":
					w.CountFault("env.corrupt-versions")
					kv = "PLUGIN_PROTOCOL_VERSIONS=abc,,-"
				case "dup":
					kv = "PLUGIN_PROTOCOL_VERSIONS=" + val + "," + val
				default:
					if strings.HasPrefix(envMode, "perm:") {
						// the same list in a prescribed order (the client builds it by
						// ranging over a map: any order may occur)
						var kth int
						fmt.Sscanf(envMode, "perm:%d", &kth)
						kv = "PLUGIN_PROTOCOL_VERSIONS=" + strings.Join(permutation(parts, kth), ",")
					}
				}
			}
			env = append(env, kv)
		}
		cmd.Env = env
		return h.NewSimRunner(r, cmd, tmpDir, false)
	}
	if first := r.Spec.P("first", ""); first != "" {
		// the SAME ClientConfig value served an earlier client first, against a
		// plugin with another version set: nothing of that may carry over
		fs := parseSide(first)
		r.W.RegisterProgram("/bin/vplugin0", []byte("#!vplugin0"), func() {
			lv, ls, vers := buildSets(fs, mask, "first-", nil)
			sc := &plugin.ServeConfig{HandshakeConfig: plugins.Handshake, VersionedPlugins: vers, GRPCServer: plugin.DefaultGRPCServer}
			sc.HandshakeConfig.ProtocolVersion = 0
			if ls != nil {
				sc.HandshakeConfig.ProtocolVersion = uint(lv)
				sc.Plugins = ls
			}
			plugin.Serve(sc)
		})
		prog, procName = "/bin/vplugin0", "plugin0"
		a := plugin.NewClient(cfg)
		r.DoNoHang("First.Start", 80*time.Second, ctx, func() (any, error) { return a.Start() })
		r.DoNoHang("First.Client", 80*time.Second, ctx, func() (any, error) { return a.Client() })
		r.DoNoHang("First.Kill", 80*time.Second, ctx, func() (any, error) { a.Kill(); return nil, nil })
		prog, procName = "/bin/vplugin", "plugin"
		ctx += " config-used-before-with-plugin=" + first
	}
	cl := plugin.NewClient(cfg)

	// reference
	hostSet := map[int]bool{}
	for _, v := range hs.versions {
		hostSet[v] = true
	}
	// what the plugin sees as the host's list
	seen := map[int]bool{}
	listPresent := true
	switch envMode {
	case "delete", "empty", "corrupt-all":
		listPresent = false
	default:
		for v := range hostSet {
			seen[v] = true
		}
	}
	// legacy folding on the host: version ProtocolVersion is offered only if Plugins is set (done by construction)
	expectVer, expectOK := -1, false
	if listPresent {
		for i := len(ps.versions) - 1; i >= 0; i-- {
			if seen[ps.versions[i]] {
				expectVer, expectOK = ps.versions[i], true
				break
			}
		}
	}
	announced := -1
	if expectOK {
		announced = expectVer
	} else {
		announced = ps.versions[0] // the plugin's lowest
		if hostSet[announced] {
			expectVer, expectOK = announced, true
		}
	}
	_ = listSent

	o := r.DoNoHang("Start", 80*time.Second, ctx, func() (any, error) { return cl.Start() })
	if o.Hung {
		return
	}
	lineMu.Lock()
	line := firstLine(string(rawOut))
	lineMu.Unlock()
	if f := strings.Split(line, "|"); len(f) >= 2 {
		if got, err := strconv.Atoi(f[1]); err != nil || got != announced {
			r.Violate("wrong-version-announced", ctx, fmt.Sprintf("plugin announced %q, reference says %d (line %q)", f[1], announced, line))
		}
		wantProto := protoOf(mask, announced)
		if noGRPCServer {
			wantProto = "netrpc"
		}
		if len(f) >= 5 && f[4] != wantProto {
			r.Violate("wrong-protocol-announced", ctx, fmt.Sprintf("plugin announced protocol %q for version %d, its set is %s", f[4], announced, wantProto))
		}
	} else {
		r.Violate("no-handshake-line", ctx, fmt.Sprintf("plugin stdout: %q", line))
	}
	proc := w.ProcByName("plugin")
	if !expectOK {
		w.Probe("expect.incompatible")
		if o.Err == nil {
			r.Violate("incompatible-accepted", ctx, fmt.Sprintf("no common version (plugin announced %d) but Start succeeded with negotiated version %d", announced, cl.NegotiatedVersion()))
		} else {
			if !strings.Contains(o.Err.Error(), "Incompatible API version") {
				r.Violate("wrong-error", ctx, "expected an incompatible-version error, got: "+o.Err.Error())
			}
			time.Sleep(time.Second)
			if proc != nil && proc.Alive() {
				r.Violate("process-left-behind", ctx, "plugin still running after the incompatible-version error")
			}
		}
		r.Do("Kill", 60*time.Second, func() (any, error) { cl.Kill(); return nil, nil })
		return
	}
	w.Probe("expect.version")
	if o.Err != nil {
		r.Violate("compatible-rejected", ctx, fmt.Sprintf("common version %d exists but Start failed: %v", expectVer, o.Err))
		r.Do("Kill", 60*time.Second, func() (any, error) { cl.Kill(); return nil, nil })
		return
	}
	if got := cl.NegotiatedVersion(); got != expectVer {
		r.Violate("wrong-version-negotiated", ctx, fmt.Sprintf("client negotiated %d, reference says %d", got, expectVer))
	}
	wantProto := protoOf(mask, expectVer)
	if noGRPCServer && wantProto == "grpc" {
		// misconfigured plugin (gRPC set without a server factory): outside the property; only no-hang is checked
		r.Do("Kill", 60*time.Second, func() (any, error) { cl.Kill(); return nil, nil })
		return
	}
	if got := string(cl.Protocol()); got != wantProto {
		r.Violate("wrong-protocol", ctx, fmt.Sprintf("client speaks %q, version %d's set is %s", got, expectVer, wantProto))
	}
	do := r.DoNoHang("Dispense+tag", 60*time.Second, ctx, func() (any, error) {
		cp, err := cl.Client()
		if err != nil {
			return nil, err
		}
		raw, err := cp.Dispense(h.PluginName)
		if err != nil {
			return nil, err
		}
		c, ok := raw.(plugins.Cmd)
		if !ok {
			return nil, errors.New("dispensed object is not the command plugin")
		}
		return c.Do("tag", "")
	})
	if do.Err != nil {
		r.Violate("sets-disagree", ctx, fmt.Sprintf("negotiated version %d but dispensing/calling failed: %v", expectVer, do.Err))
	} else if tag := do.Val.(string); !strings.HasPrefix(tag, fmt.Sprintf("v%d/%s/", expectVer, wantProto)) {
		r.Violate("sets-disagree", ctx, fmt.Sprintf("negotiated version %d (%s) but the call was answered by plugin set %q", expectVer, wantProto, tag))
	}
	r.DoNoHang("Kill", 120*time.Second, ctx, func() (any, error) { cl.Kill(); return nil, nil })
}
