// The worker executes exactly one simulated run per OS process.
package worker

import (
	"encoding/json"
	"fmt"
	"io"
	"os"
	"runtime"
	"runtime/debug"
	"sort"
	"strconv"
	"strings"
	"testing"
	"testing/cryptotest"
	"testing/synctest"
	_ "unsafe"

	"simworld/h"
	"simworld/k"
	"simworld/props"

	"google.golang.org/grpc/grpclog"
)

//go:linkname verifReseed runtime.verifReseed
func verifReseed(seed uint64, on bool) uint64

//go:linkname verifSetWake runtime.verifSetWake
func verifSetWake(permille uint32) uint32

//go:linkname verifDraws runtime.verifDraws
func verifDraws() uint64

var realStdout = os.Stdout

func emit(v any) {
	b, _ := json.Marshal(v)
	realStdout.Write(append(append([]byte("RESULT "), b...), '\n'))
}

func TestSim(t *testing.T) {
	if id := os.Getenv("VERIF_META"); id != "" {
		p := props.Registry[id]
		if p == nil {
			fmt.Fprintln(os.Stderr, "unknown property", id)
			os.Exit(3)
		}
		m := p.Meta
		m.ID = id
		if m.Level == "" {
			m.Level = "exploration"
		}
		if m.Components == "" {
			m.Components = props.Components
		}
		m.Assumptions = append(m.Assumptions, props.CommonAssumptions...)
		b, _ := json.Marshal(m)
		realStdout.Write(append(append([]byte("META "), b...), '\n'))
		os.Exit(0)
	}
	if plan := os.Getenv("VERIF_PLAN"); plan != "" {
		doPlan(plan)
		return
	}
	raw := os.Getenv("VERIF_SPEC")
	if f := os.Getenv("VERIF_SPEC_FILE"); f != "" {
		b, err := os.ReadFile(f)
		if err != nil {
			t.Fatal(err)
		}
		raw = string(b)
	}
	if raw == "" {
		t.Skip("no VERIF_SPEC")
	}
	spec := &k.Spec{}
	if err := json.Unmarshal([]byte(raw), spec); err != nil {
		fmt.Fprintln(os.Stderr, "bad spec:", err)
		os.Exit(3)
	}
	prop := props.Registry[spec.Prop]
	if prop == nil {
		fmt.Fprintln(os.Stderr, "unknown property", spec.Prop)
		os.Exit(3)
	}
	runtime.GOMAXPROCS(1)
	debug.SetGCPercent(-1)
	grpclog.SetLoggerV2(grpclog.NewLoggerV2(io.Discard, io.Discard, io.Discard))
	// libraries that log to the real os.Stderr (yamux default) must not
	// perform blocking system calls inside the bubble
	if devnull, err := os.OpenFile("/dev/null", os.O_WRONLY, 0); err == nil {
		os.Stderr = devnull
	}
	cryptotest.SetGlobalRandom(t, spec.Seed^0x5eed)
	rtSeed := k.H(spec.Seed, "runtime", 0)
	if v, ok := spec.Overrides["runtime-seed"]; ok {
		rtSeed = uint64(v)
	}
	verifReseed(rtSeed, true)
	verifSetWake(uint32(spec.Wake))
	k.NoSync = spec.P("race", "") == "1"
	synctest.Test(t, func(t *testing.T) {
		w := k.Boot(spec)
		// always kept: whether the log is formatted must not change what is
		// allocated during the run (maps keyed by pointers hash addresses)
		w.KeepLog = true
		w.DebugDraws = os.Getenv("VERIF_DEBUG_DRAWS") != ""
		w.DebugY = os.Getenv("VERIF_DEBUG_Y") != ""
		r := h.NewRun(w)
		finish := func() {
			res := result(r, rtSeed)
			emit(res)
			os.Exit(0)
		}
		w.Fatal = func(msg string) {
			sig := "host-panic"
			r.Violate("host-panic", panicSig(msg), msg)
			_ = sig
			finish()
		}
		r.Host = w.NewHost("host", hostEnv(spec))
		if g := spec.P("hgoos", ""); g != "" {
			r.Host.GOOS = g // a Windows-style host: its own brokered listeners are TCP
		}
		prop.Run(r)
		finish()
	})
}

func hostEnv(spec *k.Spec) []string {
	env := []string{"PATH=/bin", "HOME=/"}
	if e := spec.P("hostenv", ""); e != "" {
		env = append(env, strings.Split(e, "\x1f")...)
	}
	return env
}

// panicSig extracts a stable signature from a panic message: the panic value
// and the first go-plugin frame.
func panicSig(msg string) string {
	lines := strings.Split(msg, "\n")
	val := strings.TrimPrefix(lines[0], "panic: ")
	if len(val) > 120 {
		val = val[:120]
	}
	frame := ""
	for _, l := range lines[1:] {
		l = strings.TrimSpace(l)
		if strings.HasPrefix(l, "simworld/goplugin") && !strings.Contains(l, "simk.") {
			frame = l
			if i := strings.LastIndex(frame, "("); i > 0 {
				frame = frame[:i]
			}
			frame = strings.TrimPrefix(frame, "simworld/goplugin")
			break
		}
	}
	return fmt.Sprintf("value=%q at=%s", val, frame)
}

func result(r *h.Run, rtSeed uint64) *h.Result {
	w := r.W
	res := &h.Result{Prop: w.Spec.Prop, Case: w.Spec.Case, Seed: w.Spec.Seed, Verdict: "ok",
		Faults: w.Faults(), Probes: w.Probes(), SimNS: int64(w.Now()), Events: len(w.Events), LogHash: w.LogHash(), Info: r.Info}
	if n := verifSetWake(uint32(w.Spec.Wake)); n > 0 {
		if res.Faults == nil {
			res.Faults = map[string]int{}
		}
		res.Faults["sched.wake-to-tail"] = int(n)
	}
	res.Violations = r.Violations()
	if len(res.Violations) > 0 {
		res.Verdict = "violation"
	}
	// schedule signature: hash of the order of process-visible events without
	// timestamps and payload hashes
	hsh := uint64(14695981039346656037)
	for _, ev := range w.Events {
		s := ev.Proc + " " + ev.Kind + " " + ev.Key
		for i := 0; i < len(s); i++ {
			hsh ^= uint64(s[i])
			hsh *= 1099511628211
		}
	}
	res.SchedSig = strconv.FormatUint(hsh, 16)
	nf := 0
	for _, n := range w.Faults() {
		nf += n
	}
	res.Nontrivial = nf > 0 || len(w.Choices()) > 0 || len(w.Spec.Triggers) > 0
	if os.Getenv("VERIF_CHOICES") == "1" || res.Verdict == "violation" {
		res.Choices = w.Choices()
	}
	if os.Getenv("VERIF_LOG") == "1" {
		res.Log = w.Log
	}
	if os.Getenv("VERIF_SAMPLE") == "1" {
		n := len(w.Events)
		if n > 40 {
			n = 40
		}
		for _, ev := range w.Events[:n] {
			res.Sample = append(res.Sample, fmt.Sprintf("%d t=%v %s %s %s %s", ev.Seq, ev.At, ev.Proc, ev.Kind, ev.Key, ev.Arg))
		}
	}
	if w.Spec.Profile {
		res.PassSeq = w.PassSeq
		res.SitePass = w.SitePass()
		res.EvPass = w.EvPass()
	}
	res.SitesHit = len(w.SitePass())
	res.RtDraws = verifDraws()
	return res
}

func doPlan(plan string) {
	// VERIF_PLAN=<prop>:<tier>:<seed>:<stage>; previous results on stdin (JSON lines)
	parts := strings.Split(plan, ":")
	if len(parts) != 4 {
		fmt.Fprintln(os.Stderr, "bad VERIF_PLAN")
		os.Exit(3)
	}
	prop := props.Registry[parts[0]]
	if prop == nil {
		fmt.Fprintln(os.Stderr, "unknown property", parts[0], "have", props.IDs())
		os.Exit(3)
	}
	seed, _ := strconv.ParseUint(parts[2], 10, 64)
	stage, _ := strconv.Atoi(parts[3])
	var prev []*h.Result
	if stage > 0 {
		dec := json.NewDecoder(os.Stdin)
		for {
			var r h.Result
			if err := dec.Decode(&r); err != nil {
				break
			}
			rr := r
			prev = append(prev, &rr)
		}
	}
	specs := prop.Plan(parts[1], seed, stage, prev)
	sort.SliceStable(specs, func(i, j int) bool { return false })
	for _, s := range specs {
		b, _ := json.Marshal(s)
		realStdout.Write(append(append([]byte("SPEC "), b...), '\n'))
	}
	realStdout.Write([]byte("PLAN-END\n"))
	os.Exit(0)
}
