#!/usr/bin/env python3
"""Generate a `go build -overlay` file that patches four files of the Go
runtime (go1.26.8) so that, once the simulator calls runtime.verifReseed(seed,
true), every program-visible random draw of the runtime (select order, order of
equal-time fake timers, map seeds, math/rand auto seed) comes from one seeded
stream and the scheduler stops reordering simulated goroutines behind our back.

Every hunk is located by exact text and must match exactly once; anything else
aborts with exit status 2.  The GOROOT itself is never modified.
usage: gen.py <goroot> <outdir>      -> writes <outdir>/overlay.json
"""
import json, os, sys

def die(msg):
    sys.stderr.write("rtoverlay: " + msg + "\n"); sys.exit(2)

def patch(src, old, new, name):
    n = src.count(old)
    if n != 1:
        die("%s: expected exactly one match, found %d for:\n%s" % (name, n, old))
    return src.replace(old, new)

def main():
    goroot, out = sys.argv[1], sys.argv[2]
    rt = os.path.join(goroot, "src", "runtime")
    os.makedirs(out, exist_ok=True)
    files = {}

    # ---- rand.go -------------------------------------------------------
    s = open(os.path.join(rt, "rand.go")).read()
    s = patch(s, "func rand() uint64 {\n",
        "func rand() uint64 {\n\tif verifRand.on {\n\t\treturn uint64(verifrand())<<32 | uint64(verifrand())\n\t}\n", "rand.go/rand")
    if '"internal/runtime/math"' not in s and '"math/bits"' not in s:
        pass
    s += '''
// VERIF overlay: when enabled, the runtime random draws that are visible to
// programs (select order, equal-time fake timer order, map seeds, math/rand
// auto-seed) come from one stream seeded by the simulator. Scheduler-internal
// draws (work stealing, sema tickets) keep using the per-M generator so that
// idle spinning cannot perturb the stream.
var verifRand = struct {
	on   bool
	s    uint64
	n    uint64
	wakes uint32 // wake-ups sent to the tail so far
	wake uint32 // permille of wake-ups of simulated goroutines that go to the tail of the run queue instead of runnext
}{on: true, s: 0x5eed5eed5eed5eed} // on from process start: maps created by package initialisers get reproducible seeds too

//go:nosplit
func verifrand() uint32 {
	if !verifRand.on {
		return cheaprand()
	}
	verifRand.n++
	verifRand.s += 0xa0761d6478bd642f
	hi, lo := verifmul64(verifRand.s, verifRand.s^0xe7037ed1a0b428db)
	return uint32(hi ^ lo)
}

//go:nosplit
func verifmul64(x, y uint64) (hi, lo uint64) {
	const mask32 = 1<<32 - 1
	x0 := x & mask32
	x1 := x >> 32
	y0 := y & mask32
	y1 := y >> 32
	w0 := x0 * y0
	t := x1*y0 + w0>>32
	w1 := t & mask32
	w2 := t >> 32
	w1 += x0 * y1
	hi = x1*y1 + w2 + w1>>32
	lo = x * y
	return
}

//go:nosplit
func verifrandn(n uint32) uint32 {
	return uint32((uint64(verifrand()) * uint64(n)) >> 32)
}

// verifReseed switches the simulator mode on or off and reseeds the stream.
// It returns the number of draws made since the previous call.
//
//go:linkname verifReseed
func verifReseed(seed uint64, on bool) uint64 {
	n := verifRand.n
	verifRand.s = seed
	verifRand.on = on
	// sync.Mutex / RWMutex waits count as durable blocking inside the simulator:
	// every goroutine that can hold a lock lives in the bubble.
	isIdleInSynctest[waitReasonSyncMutexLock] = on
	isIdleInSynctest[waitReasonSyncRWMutexRLock] = on
	isIdleInSynctest[waitReasonSyncRWMutexLock] = on
	verifRand.n = 0
	if pp := getg().m.p.ptr(); pp != nil {
		pp.schedtick = 0
	}
	return n
}

// verifSetWake sets the wake-up law: the permille of wake-ups (channel, mutex,
// WaitGroup, Cond, timer ...) after which the woken goroutine does NOT run
// next but queues behind the goroutines that are already runnable - the order
// a multi-P runtime produces all the time and the single-P one never does.
//
//go:linkname verifSetWake
func verifSetWake(permille uint32) uint32 {
	n := verifRand.wakes
	verifRand.wake, verifRand.wakes = permille, 0
	return n
}

// verifDraws reports the number of draws made so far (for the event log).
//
//go:linkname verifDraws
func verifDraws() uint64 { return verifRand.n }
'''
    files["rand.go"] = s

    # ---- select.go -----------------------------------------------------
    s = open(os.path.join(rt, "select.go")).read()
    s = patch(s, "j := cheaprandn(uint32(norder + 1))", "j := verifrandn(uint32(norder + 1))", "select.go/pollorder")
    files["select.go"] = s

    # ---- time.go -------------------------------------------------------
    s = open(os.path.join(rt, "time.go")).read()
    s = patch(s, "\t\t\tt.rand = cheaprand()\n", "\t\t\tt.rand = verifrand()\n", "time.go/t.rand")
    files["time.go"] = s

    # ---- proc.go -------------------------------------------------------
    s = open(os.path.join(rt, "proc.go")).read()
    s = patch(s,
        "\t\ttrace.GoUnpark(gp, traceskip)\n\t\ttraceRelease(trace)\n\t}\n\trunqput(mp.p.ptr(), gp, next)\n",
        "\t\ttrace.GoUnpark(gp, traceskip)\n\t\ttraceRelease(trace)\n\t}\n"
        "\tif verifRand.on && gp.bubble == nil {\n\t\tnext = false // VERIF overlay: outsiders never displace a simulated goroutine from runnext\n\t} else if verifRand.on && next && verifRand.wake != 0 && verifrandn(1000) < verifRand.wake {\n\t\tnext = false // VERIF overlay: seeded wake-up order\n\t\tverifRand.wakes++\n\t}\n"
        "\trunqput(mp.p.ptr(), gp, next)\n", "proc.go/ready")
    s = patch(s,
        "\t\trunqput(pp, gp, true)\n\t} else {\n\t\tlock(&sched.lock)\n\t\tglobrunqput(gp)\n\t\tunlock(&sched.lock)\n\t}\n",
        "\t\trunqput(pp, gp, true)\n\t} else if verifRand.on && !preempted {\n"
        "\t\t// VERIF overlay: yield to the tail of the local queue so that the\n"
        "\t\t// global-queue fairness tick cannot reorder simulated goroutines.\n"
        "\t\trunqput(pp, gp, false)\n\t} else {\n\t\tlock(&sched.lock)\n\t\tglobrunqput(gp)\n\t\tunlock(&sched.lock)\n\t}\n",
        "proc.go/goschedImpl")
    s = patch(s, "} else if pd.schedwhen+forcePreemptNS <= now {\n",
        "} else if pd.schedwhen+forcePreemptNS <= now && !verifRand.on {\n", "proc.go/retake")
    # no P hand-off either: a simulated goroutine that is in a (short, real)
    # system call keeps its P, otherwise the order in which goroutines run
    # would depend on how long the host kernel took
    s = patch(s, "func retake(now int64) uint32 {\n\tn := 0\n",
        "func retake(now int64) uint32 {\n\tif verifRand.on {\n\t\treturn 0\n\t}\n\tn := 0\n", "proc.go/retake-syscall")
    # the race-detector build randomises run-queue insertion from the per-M
    # generator; the simulator decides interleavings itself
    s = patch(s, "const randomizeScheduler = raceenabled\n", "const randomizeScheduler = false // VERIF overlay\n", "proc.go/randomizeScheduler")
    files["proc.go"] = s

    # ---- alg.go -------------------------------------------------------
    # The hash functions behind maps are keyed with per-process random data, so
    # the layout of a map - and with it the order in which `range` visits it,
    # even with seeded iteration offsets - differs from process to process.
    # (Found the hard way: yamux force-closes the streams of a dying session in
    # map order, and which blocked goroutine woke first differed per process.)
    s = open(os.path.join(rt, "alg.go")).read()
    s = patch(s, "\t\thashkey[i] = uintptr(bootstrapRand())\n",
        "\t\thashkey[i] = uintptr(0x9e3779b97f4a7c15 * uint64(i+1)) // VERIF overlay: fixed hash key\n", "alg.go/hashkey")
    s = patch(s, "\t\tkey[i] = bootstrapRand()\n",
        "\t\tkey[i] = 0x9e3779b97f4a7c15 * uint64(i+1) // VERIF overlay: fixed hash key\n", "alg.go/aeskey")
    files["alg.go"] = s

    # ---- sema.go ------------------------------------------------------
    # sync.Mutex switches to starvation mode when a waiter has waited more
    # than 1ms of REAL time; under load that changes who gets a contended lock.
    s = open(os.path.join(rt, "sema.go")).read()
    s = patch(s, "func internal_sync_nanotime() int64 {\n\treturn nanotime()\n",
        "func internal_sync_nanotime() int64 {\n\tif verifRand.on {\n\t\treturn 1 // VERIF overlay: no real-time dependent lock hand-off (non-zero keeps the LIFO requeue of a woken waiter)\n\t}\n\treturn nanotime()\n", "sema.go/nanotime")
    files["sema.go"] = s

    # ---- malloc.go ----------------------------------------------------
    # go1.26 randomises the heap base address per process. Maps keyed by
    # pointers (or by interfaces holding pointers) hash the ADDRESS, so their
    # layout - and the order `range` visits them in - differed from process to
    # process even with fixed hash keys: grpc-go closes its connections, and
    # go-plugin's broker its listeners, in the order of such maps. (Found by
    # the determinism self-test when bursts of 12-40 brokered connections were
    # added: with one or two entries the order had never mattered.) Without
    # the randomisation, one P, no GC and a seeded scheduler allocate the same
    # objects at the same addresses in every process.
    s = open(os.path.join(rt, "malloc.go")).read()
    s = patch(s, "\trandomizeHeapBase = goexperiment.RandomizedHeapBase64 && ",
        "\trandomizeHeapBase = false && goexperiment.RandomizedHeapBase64 && ", "malloc.go/randomizeHeapBase")
    files["malloc.go"] = s

    replace = {}
    for name, text in files.items():
        p = os.path.join(out, name)
        with open(p, "w") as f:
            f.write(text)
        replace[os.path.join(rt, name)] = p
    with open(os.path.join(out, "overlay.json"), "w") as f:
        json.dump({"Replace": replace}, f, indent=1)
    print("rtoverlay: wrote", os.path.join(out, "overlay.json"))

main()
