#!/usr/bin/env python3
"""usage: grpcretry.py <stream.go of the grpc-go copy>
grpc-go's clientStream.withRetry loop retries a stream that could not be
created ("transparent retry") without ever blocking, until the transport's
reader goroutine has taken the dead transport out of the picker. Under the Go
scheduler that loop is preempted; under the simulator's cooperative single-P
scheduling nothing else would ever run (livelock, seen when the plugin dies
while a call is being started). Yield once per retry."""
import sys
p = sys.argv[1]
s = open(p).read()
old = """		if err := cs.retryLocked(a, err); err != nil {
			cs.mu.Unlock()
			return err
		}
	}
}
"""
new = """		if err := cs.retryLocked(a, err); err != nil {
			cs.mu.Unlock()
			return err
		}
		// VERIF: yield between retries (see /verif/sim/rtoverlay/grpcretry.py)
		cs.mu.Unlock()
		verifYield()
		cs.mu.Lock()
	}
}
"""
if s.count(old) != 1:
    sys.exit("grpcretry: withRetry loop not found exactly once in " + p)
s = s.replace(old, new)
# retryLocked has a loop of its own (transparent retries of a stream that could
# not be created on a transport that is dead but not yet known to be)
old2 = """		if lastErr = cs.replayBufferLocked(attempt); lastErr == nil {
			return nil
		}
	}
}
"""
new2 = """		if lastErr = cs.replayBufferLocked(attempt); lastErr == nil {
			return nil
		}
		verifYield() // VERIF: see /verif/sim/rtoverlay/grpcretry.py
	}
}
"""
if s.count(old2) != 1:
    sys.exit("grpcretry: retryLocked loop not found exactly once in " + p)
s = s.replace(old2, new2)
open(p, "w").write(s)
# A plain Gosched is not enough when what ends the retries is a timer: the
# simulated clock only advances while every goroutine is blocked, and a loop
# that merely yields never is. Every 16th consecutive yield sleeps 1 us.
open(p.replace("stream.go", "verif_yield.go"), "w").write("""package grpc

import (
	"runtime"
	"time"
)

var verifYields int

func verifYield() {
	verifYields++
	if verifYields%16 == 0 {
		time.Sleep(time.Microsecond)
		return
	}
	runtime.Gosched()
}
""")
