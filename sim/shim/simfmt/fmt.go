// Package simfmt is package fmt except that Print* write to the simulated
// process's standard output.
package simfmt

import (
	"fmt"
	"io"

	os "simworld/shim/simos"
)

type (
	Stringer   = fmt.Stringer
	GoStringer = fmt.GoStringer
	Formatter  = fmt.Formatter
	State      = fmt.State
	Scanner    = fmt.Scanner
	ScanState  = fmt.ScanState
)

func Sprintf(format string, a ...any) string { return fmt.Sprintf(format, a...) }
func Sprint(a ...any) string                 { return fmt.Sprint(a...) }
func Sprintln(a ...any) string               { return fmt.Sprintln(a...) }
func Errorf(format string, a ...any) error   { return fmt.Errorf(format, a...) }
func Fprintf(w io.Writer, format string, a ...any) (int, error) {
	return fmt.Fprintf(w, format, a...)
}
func Fprint(w io.Writer, a ...any) (int, error)   { return fmt.Fprint(w, a...) }
func Fprintln(w io.Writer, a ...any) (int, error) { return fmt.Fprintln(w, a...) }
func Sscanf(str string, format string, a ...any) (int, error) {
	return fmt.Sscanf(str, format, a...)
}
func Sscan(str string, a ...any) (int, error) { return fmt.Sscan(str, a...) }
func Fscanf(r io.Reader, format string, a ...any) (int, error) {
	return fmt.Fscanf(r, format, a...)
}
func Append(b []byte, a ...any) []byte                 { return fmt.Append(b, a...) }
func Appendf(b []byte, format string, a ...any) []byte { return fmt.Appendf(b, format, a...) }
func Appendln(b []byte, a ...any) []byte               { return fmt.Appendln(b, a...) }

func Printf(format string, a ...any) (int, error) {
	return fmt.Fprintf(os.GetStdout(), format, a...)
}
func Print(a ...any) (int, error)   { return fmt.Fprint(os.GetStdout(), a...) }
func Println(a ...any) (int, error) { return fmt.Fprintln(os.GetStdout(), a...) }
