// Package simsignal stands in for os/signal.
package simsignal

import (
	"os"
	"syscall"

	"simworld/k"
)

func Notify(c chan<- os.Signal, sig ...os.Signal) {
	p := k.Cur()
	if p == nil {
		return
	}
	fwd := make(chan k.Signal, 4)
	go func() {
		for s := range fwd {
			if os, ok := s.(os.Signal); ok {
				select {
				case c <- os:
				default:
				}
			}
		}
	}()
	for _, s := range sig {
		if n, ok := s.(syscall.Signal); ok {
			p.NotifySignal(int(n), fwd)
		}
	}
}

func Stop(c chan<- os.Signal) {}
func Ignore(sig ...os.Signal) {}
func Reset(sig ...os.Signal)  {}
