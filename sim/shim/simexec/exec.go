// Package simexec stands in for os/exec: commands run as simulated processes.
package simexec

import (
	"context"
	"errors"
	"io"
	"strings"
	"syscall"

	"simworld/k"
	os "simworld/shim/simos"
)

var ErrNotFound = errors.New("executable file not found in $PATH")

type Error struct {
	Name string
	Err  error
}

func (e *Error) Error() string { return "exec: " + e.Name + ": " + e.Err.Error() }
func (e *Error) Unwrap() error { return e.Err }

type ExitError struct {
	*os.ProcessState
	Stderr []byte
}

func (e *ExitError) Error() string { return e.ProcessState.String() }

type Cmd struct {
	Path         string
	Args         []string
	Env          []string
	Dir          string
	Stdin        io.Reader
	Stdout       io.Writer
	Stderr       io.Writer
	ExtraFiles   []*os.File
	SysProcAttr  *syscall.SysProcAttr
	Process      *os.Process
	ProcessState *os.ProcessState
	Err          error
	Cancel       func() error
	WaitDelay    int64

	// SimName names the simulated process (harness only).
	SimName string
	// SimOpts are namespace settings of a container-style runner (harness only).
	SimOpts *k.SpawnOpts

	childOut, childErr   *k.File
	parentOut, parentErr *k.File
	started, waited      bool
}

func Command(name string, arg ...string) *Cmd {
	return &Cmd{Path: name, Args: append([]string{name}, arg...)}
}

func CommandContext(ctx context.Context, name string, arg ...string) *Cmd {
	return Command(name, arg...)
}

func LookPath(file string) (string, error) {
	if k.W.Exists(file) {
		return file, nil
	}
	return "", &Error{Name: file, Err: ErrNotFound}
}

func (c *Cmd) String() string { return strings.Join(c.Args, " ") }

func (c *Cmd) StdoutPipe() (io.ReadCloser, error) {
	if c.Stdout != nil {
		return nil, errors.New("exec: Stdout already set")
	}
	if c.started {
		return nil, errors.New("exec: StdoutPipe after process started")
	}
	p := k.Cur()
	p.Gate()
	r, w := k.W.NewPipe(p, "stdout."+c.simName(), pipeCap("stdout"))
	c.Stdout = w
	c.childOut, c.parentOut = w, r
	return r, nil
}

func (c *Cmd) StderrPipe() (io.ReadCloser, error) {
	if c.Stderr != nil {
		return nil, errors.New("exec: Stderr already set")
	}
	if c.started {
		return nil, errors.New("exec: StderrPipe after process started")
	}
	p := k.Cur()
	p.Gate()
	r, w := k.W.NewPipe(p, "stderr."+c.simName(), pipeCap("stderr"))
	c.Stderr = w
	c.childErr, c.parentErr = w, r
	return r, nil
}

func pipeCap(which string) int {
	if k.W.FaultOn("pipe.smallbuf") {
		if v := k.W.Range("pipecap/"+which, 6); v > 0 {
			k.W.CountFault("pipe.smallbuf")
			return []int{0, 1, 7, 64, 512, 4096}[v]
		}
	}
	return 64 << 10
}

func (c *Cmd) simName() string {
	if c.SimName != "" {
		return c.SimName
	}
	return "plugin"
}

// dedupEnv keeps the last assignment of each key, as os/exec does.
func dedupEnv(env []string) []string {
	out := make([]string, 0, len(env))
	saw := map[string]bool{}
	for n := len(env); n > 0; n-- {
		kv := env[n-1]
		i := strings.Index(kv, "=")
		if i == 0 {
			i = strings.Index(kv[1:], "=") + 1
		}
		if i < 0 {
			if kv != "" {
				out = append(out, kv)
			}
			continue
		}
		key := kv[:i]
		if saw[key] {
			continue
		}
		saw[key] = true
		out = append(out, kv)
	}
	for i, j := 0, len(out)-1; i < j; i, j = i+1, j-1 {
		out[i], out[j] = out[j], out[i]
	}
	return out
}

func (c *Cmd) Environ() []string {
	env := c.Env
	if env == nil {
		env = os.Environ()
	}
	return dedupEnv(env)
}

func (c *Cmd) Start() error {
	if c.Path == "" && c.Err == nil {
		c.Err = errors.New("exec: no command")
	}
	if c.Err != nil {
		return c.Err
	}
	if c.started {
		return errors.New("exec: already started")
	}
	c.started = true
	cur := k.Cur()
	cur.Gate()
	file := func(v any) *k.File {
		if f, ok := v.(*k.File); ok {
			return f
		}
		return nil
	}
	if k.W.FaultOn("spawn.fail") && k.W.Flip("spawnfail", 150) {
		k.W.CountFault("spawn.fail")
		c.closeChildEnds()
		c.closeParentEnds()
		return &os.PathError{Op: "fork/exec", Path: c.Path, Err: syscall.EAGAIN}
	}
	var in, out, errf *k.File
	if c.Stdin != nil {
		in = file(c.Stdin)
	}
	if c.Stdout != nil {
		out = file(c.Stdout)
	}
	if c.Stderr != nil {
		errf = file(c.Stderr)
	}
	// as the kernel does it: the child changes to Dir first, a relative command
	// path is then resolved from there (symbolic links, ".." physically)
	cwd := c.Dir
	if cwd == "" {
		cwd = "/"
		if cur != nil && cur.Cwd != "" {
			cwd = cur.Cwd
		}
	}
	p, err := k.W.Spawn(c.simName(), k.W.Phys(cwd, c.Path), c.Args, c.Environ(), in, out, errf, c.SimOpts)
	if err == nil {
		p.Cwd = cwd
	}
	if err != nil {
		c.closeChildEnds()
		c.closeParentEnds()
		return err
	}
	// the parent closes its copies of the child's ends
	c.closeChildEnds()
	c.Process = os.NewProcess(p)
	return nil
}

func (c *Cmd) closeChildEnds() {
	if c.childOut != nil {
		c.childOut.Close()
	}
	if c.childErr != nil {
		c.childErr.Close()
	}
}

func (c *Cmd) closeParentEnds() {
	if c.parentOut != nil {
		c.parentOut.Close()
	}
	if c.parentErr != nil {
		c.parentErr.Close()
	}
}

func (c *Cmd) Wait() error {
	if c.Process == nil {
		return errors.New("exec: not started")
	}
	if c.waited {
		return errors.New("exec: Wait was already called")
	}
	c.waited = true
	st, err := c.Process.Wait()
	// os/exec closes the parent's pipe ends after the process has exited
	c.closeParentEnds()
	if err != nil {
		return err
	}
	c.ProcessState = st
	if !st.Success() {
		return &ExitError{ProcessState: st}
	}
	return nil
}

func (c *Cmd) Run() error {
	if err := c.Start(); err != nil {
		return err
	}
	return c.Wait()
}
