// Package simnet stands in for package net in the rewritten copy of go-plugin.
package simnet

import (
	"context"
	"errors"
	"net"
	"strconv"
	"time"

	"simworld/k"
)

type (
	Conn                = net.Conn
	Listener            = net.Listener
	Addr                = net.Addr
	TCPAddr             = net.TCPAddr
	UnixAddr            = net.UnixAddr
	IP                  = net.IP
	Error               = net.Error
	OpError             = net.OpError
	AddrError           = net.AddrError
	UnknownNetworkError = net.UnknownNetworkError
)

var ErrClosed = net.ErrClosed

func ParseIP(s string) IP                                    { return net.ParseIP(s) }
func JoinHostPort(host, port string) string                  { return net.JoinHostPort(host, port) }
func SplitHostPort(hp string) (host, port string, err error) { return net.SplitHostPort(hp) }
func IPv4(a, b, c, d byte) IP                                { return net.IPv4(a, b, c, d) }

// TCPConn / UnixConn wrap a simulated endpoint so that type assertions in the
// code under test keep working.
type TCPConn struct{ *k.Endpoint }

func (c *TCPConn) SetKeepAlive(bool) error                { return nil }
func (c *TCPConn) SetKeepAlivePeriod(time.Duration) error { return nil }
func (c *TCPConn) SetNoDelay(bool) error                  { return nil }
func (c *TCPConn) SetLinger(int) error                    { return nil }

type UnixConn struct{ *k.Endpoint }

func wrap(e *k.Endpoint) Conn {
	if e.Network() == "tcp" {
		return &TCPConn{e}
	}
	return &UnixConn{e}
}

// KEndpoint digs the simulated endpoint out of a Conn (harness use).
func KEndpoint(c Conn) *k.Endpoint {
	switch v := c.(type) {
	case *TCPConn:
		return v.Endpoint
	case *UnixConn:
		return v.Endpoint
	}
	return nil
}

func Dial(network, address string) (Conn, error) {
	e, err := k.W.Dial(network, address)
	if err != nil {
		return nil, err
	}
	return wrap(e), nil
}

func DialTimeout(network, address string, timeout time.Duration) (Conn, error) {
	return Dial(network, address)
}

type Dialer struct {
	Timeout   time.Duration
	Deadline  time.Time
	KeepAlive time.Duration
	LocalAddr Addr
}

func (d *Dialer) Dial(network, address string) (Conn, error) { return Dial(network, address) }
func (d *Dialer) DialContext(ctx context.Context, network, address string) (Conn, error) {
	if err := ctx.Err(); err != nil {
		return nil, err
	}
	return Dial(network, address)
}

func DialUnix(network string, laddr, raddr *UnixAddr) (*UnixConn, error) {
	e, err := k.W.Dial("unix", raddr.Name)
	if err != nil {
		return nil, err
	}
	return &UnixConn{e}, nil
}

func DialTCP(network string, laddr, raddr *TCPAddr) (*TCPConn, error) {
	e, err := k.W.Dial("tcp", raddr.String())
	if err != nil {
		return nil, err
	}
	return &TCPConn{e}, nil
}

type simListener struct{ l *k.Listener }

func (s *simListener) Accept() (Conn, error) {
	e, err := s.l.Accept()
	if err != nil {
		return nil, err
	}
	return wrap(e), nil
}
func (s *simListener) Close() error                  { return s.l.Close() }
func (s *simListener) Addr() Addr                    { return s.l.Addr() }
func (s *simListener) KListener() *k.Listener        { return s.l }
func (s *simListener) SetDeadline(t time.Time) error { return s.l.SetDeadline(t) }

type UnixListener = simListener
type TCPListener = simListener

func Listen(network, address string) (Listener, error) {
	l, err := k.W.Listen(network, address)
	if err != nil {
		return nil, err
	}
	return &simListener{l}, nil
}

func ListenUnix(network string, laddr *UnixAddr) (*UnixListener, error) {
	l, err := k.W.Listen("unix", laddr.Name)
	if err != nil {
		return nil, err
	}
	return &simListener{l}, nil
}

func ListenTCP(network string, laddr *TCPAddr) (*TCPListener, error) {
	l, err := k.W.Listen("tcp", laddr.String())
	if err != nil {
		return nil, err
	}
	return &simListener{l}, nil
}

type ListenConfig struct{ KeepAlive time.Duration }

func (lc *ListenConfig) Listen(ctx context.Context, network, address string) (Listener, error) {
	return Listen(network, address)
}

// ResolveTCPAddr never touches a real resolver: literal IPs, "localhost" and
// the empty host resolve; everything else is "no such host".
func ResolveTCPAddr(network, address string) (*TCPAddr, error) {
	switch network {
	case "tcp", "tcp4", "tcp6", "":
	default:
		return nil, net.UnknownNetworkError(network)
	}
	host, port, err := net.SplitHostPort(address)
	if err != nil {
		return nil, err
	}
	pn, err := strconv.Atoi(port)
	if err != nil || pn < 0 || pn > 65535 {
		return nil, &net.AddrError{Err: "unknown port", Addr: network + "/" + port}
	}
	var ip net.IP
	switch host {
	case "":
	case "localhost":
		ip = net.IPv4(127, 0, 0, 1)
	default:
		ip = net.ParseIP(host)
		if ip == nil {
			return nil, &net.DNSError{Err: "no such host", Name: host, IsNotFound: true}
		}
	}
	return &net.TCPAddr{IP: ip, Port: pn}, nil
}

func ResolveUnixAddr(network, address string) (*UnixAddr, error) {
	return net.ResolveUnixAddr(network, address)
}

// Pipe is the in-memory synchronous pipe of package net (pure, no OS).
func Pipe() (Conn, Conn) { return net.Pipe() }

var errNotSupported = errors.New("simnet: not supported")
