// Package simruntime stands in for package runtime: GOOS is a per-process
// knob so that the TCP listener path of Serve is reachable.
package simruntime

import (
	"runtime"

	"simworld/k"
)

const (
	GOARCH   = runtime.GOARCH
	Compiler = runtime.Compiler
)

// GOOS is a function call after rewriting (runtime.GOOS -> simruntime.GetGOOS()).
func GetGOOS() string {
	if p := k.Cur(); p != nil && p.GOOS != "" {
		return p.GOOS
	}
	return "linux"
}

type (
	Frame       = runtime.Frame
	Frames      = runtime.Frames
	MemStats    = runtime.MemStats
	Error       = runtime.Error
	Func        = runtime.Func
	StackRecord = runtime.StackRecord
)

func Gosched()                                     { runtime.Gosched() }
func NumGoroutine() int                            { return runtime.NumGoroutine() }
func NumCPU() int                                  { return 1 }
func GOMAXPROCS(n int) int                         { return 1 }
func Stack(buf []byte, all bool) int               { return runtime.Stack(buf, all) }
func Caller(skip int) (uintptr, string, int, bool) { return runtime.Caller(skip + 1) }
func Callers(skip int, pc []uintptr) int           { return runtime.Callers(skip+1, pc) }
func CallersFrames(callers []uintptr) *Frames      { return runtime.CallersFrames(callers) }
func FuncForPC(pc uintptr) *Func                   { return runtime.FuncForPC(pc) }
func KeepAlive(x any)                              { runtime.KeepAlive(x) }
func SetFinalizer(obj any, finalizer any)          { runtime.SetFinalizer(obj, finalizer) }
func GC()                                          {}
func Version() string                              { return runtime.Version() }
func Goexit()                                      { runtime.Goexit() }
