// Package simlog is the standard logger of package log, per simulated
// process: it writes to the stderr descriptor the process was started with
// (the std logger captures os.Stderr at program start).
package simlog

import (
	"fmt"
	"io"
	"log"

	"simworld/k"
)

type Logger = log.Logger

const (
	Ldate         = log.Ldate
	Ltime         = log.Ltime
	Lmicroseconds = log.Lmicroseconds
	Llongfile     = log.Llongfile
	Lshortfile    = log.Lshortfile
	LUTC          = log.LUTC
	Lmsgprefix    = log.Lmsgprefix
	LstdFlags     = log.LstdFlags
)

func New(out io.Writer, prefix string, flag int) *Logger { return log.New(out, prefix, flag) }

func out(s string) {
	p := k.Cur()
	if p == nil || p.Fd2 == nil {
		return
	}
	if len(s) == 0 || s[len(s)-1] != '\n' {
		s += "\n"
	}
	// the standard logger prefixes date and time; keep a fixed one so that
	// output is reproducible
	p.Fd2.Write([]byte("2000/01/01 00:00:00 " + s))
}

func Printf(format string, v ...any) { out(fmt.Sprintf(format, v...)) }
func Print(v ...any)                 { out(fmt.Sprint(v...)) }
func Println(v ...any)               { out(fmt.Sprintln(v...)) }
func Fatalf(format string, v ...any) {
	out(fmt.Sprintf(format, v...))
	k.Cur().Exit(1)
}
func Fatal(v ...any) {
	out(fmt.Sprint(v...))
	k.Cur().Exit(1)
}
func Fatalln(v ...any) {
	out(fmt.Sprintln(v...))
	k.Cur().Exit(1)
}
func Panicf(format string, v ...any) {
	s := fmt.Sprintf(format, v...)
	out(s)
	panic(s)
}
func Panic(v ...any) {
	s := fmt.Sprint(v...)
	out(s)
	panic(s)
}
func SetOutput(w io.Writer) {}
func SetFlags(flag int)     {}
func SetPrefix(p string)    {}
func Flags() int            { return log.LstdFlags }
func Prefix() string        { return "" }
func Writer() io.Writer     { return k.Cur().Fd2 }
func Default() *Logger      { return log.New(k.Cur().Fd2, "", log.LstdFlags) }
