// Package simuser stands in for os/user with a two-entry database.
package simuser

import "os/user"

type (
	User  = user.User
	Group = user.Group
)

type UnknownGroupError string

func (e UnknownGroupError) Error() string { return "group: unknown group " + string(e) }

func LookupId(uid string) (*User, error) {
	if uid == "1000" {
		return &User{Uid: "1000", Gid: "1000", Username: "sim", Name: "sim", HomeDir: "/"}, nil
	}
	return nil, user.UnknownUserIdError(0)
}

func Lookup(name string) (*User, error) {
	if name == "sim" {
		return LookupId("1000")
	}
	return nil, user.UnknownUserError(name)
}

func Current() (*User, error) { return LookupId("1000") }

func LookupGroupId(gid string) (*Group, error) {
	switch gid {
	case "1000":
		return &Group{Gid: "1000", Name: "sim"}, nil
	case "2000":
		return &Group{Gid: "2000", Name: "plugins"}, nil
	}
	return nil, user.UnknownGroupIdError(gid)
}

func LookupGroup(name string) (*Group, error) {
	switch name {
	case "sim":
		return &Group{Gid: "1000", Name: "sim"}, nil
	case "plugins":
		return &Group{Gid: "2000", Name: "plugins"}, nil
	}
	return nil, user.UnknownGroupError(name)
}
