// Package simos stands in for package os in the rewritten copy of go-plugin:
// every call acts on the simulated process the calling goroutine belongs to.
// Anything not defined here is a compile error in the scratch build, never a
// silent fall-through to the real operating system.
package simos

import (
	"io/fs"
	"os"
	"syscall"

	"simworld/k"
)

type (
	File         = k.File
	FileMode     = os.FileMode
	FileInfo     = os.FileInfo
	PathError    = os.PathError
	SyscallError = os.SyscallError
	LinkError    = os.LinkError
	Signal       = os.Signal
	DirEntry     = os.DirEntry
)

const (
	ModeDir    = os.ModeDir
	ModeSocket = os.ModeSocket
	ModePerm   = os.ModePerm
	O_RDONLY   = os.O_RDONLY
	O_WRONLY   = os.O_WRONLY
	O_RDWR     = os.O_RDWR
	O_CREATE   = os.O_CREATE
	O_APPEND   = os.O_APPEND
	O_TRUNC    = os.O_TRUNC
	O_EXCL     = os.O_EXCL

	PathSeparator     = os.PathSeparator
	PathListSeparator = os.PathListSeparator
	DevNull           = os.DevNull
)

var (
	Interrupt Signal = os.Interrupt
	Kill      Signal = os.Kill

	ErrProcessDone      = os.ErrProcessDone
	ErrNotExist         = os.ErrNotExist
	ErrExist            = os.ErrExist
	ErrClosed           = os.ErrClosed
	ErrInvalid          = os.ErrInvalid
	ErrPermission       = os.ErrPermission
	ErrDeadlineExceeded = os.ErrDeadlineExceeded
	ErrNoDeadline       = os.ErrNoDeadline
)

func cur() *k.Proc {
	p := k.Cur()
	p.Gate()
	return p
}

func GetStdin() *File {
	if p := k.Cur(); p != nil {
		return p.Stdin
	}
	return nil
}
func GetStdout() *File {
	if p := k.Cur(); p != nil {
		return p.Stdout
	}
	return nil
}
func GetStderr() *File {
	if p := k.Cur(); p != nil {
		return p.Stderr
	}
	return nil
}
func SetStdin(f *File) {
	if p := k.Cur(); p != nil {
		p.Stdin = f
	}
}
func SetStdout(f *File) {
	if p := k.Cur(); p != nil {
		p.Stdout = f
		k.W.Ev(p, "setstdout", f.Name(), "")
	}
}
func SetStderr(f *File) {
	if p := k.Cur(); p != nil {
		p.Stderr = f
		k.W.Ev(p, "setstderr", f.Name(), "")
	}
}
func GetArgs() []string {
	if p := k.Cur(); p != nil {
		return p.Args
	}
	return nil
}
func SetArgs(a []string) {
	if p := k.Cur(); p != nil {
		p.Args = a
	}
}

func Getenv(key string) string {
	p := cur()
	if p == nil {
		return ""
	}
	v, _ := p.Getenv(key)
	return v
}

func LookupEnv(key string) (string, bool) {
	p := cur()
	if p == nil {
		return "", false
	}
	return p.Getenv(key)
}

func Environ() []string {
	p := cur()
	if p == nil {
		return nil
	}
	return p.Environ()
}

func Setenv(key, value string) error {
	if p := cur(); p != nil {
		p.Setenv(key, value)
	}
	return nil
}

func Unsetenv(key string) error {
	if p := cur(); p != nil {
		p.Unsetenv(key)
	}
	return nil
}

func Exit(code int) {
	p := cur()
	if p == nil {
		panic("simos.Exit outside any simulated process")
	}
	p.Exit(code)
}

func Getpid() int {
	if p := cur(); p != nil {
		return p.Pid
	}
	return 1
}

func Getppid() int {
	if p := cur(); p != nil && p.Parent != nil {
		return p.Parent.Pid
	}
	return 1
}

func Getuid() int  { return 1000 }
func Geteuid() int { return 1000 }
func Getgid() int  { return 1000 }
func Getegid() int { return 1000 }

func Hostname() (string, error) { return "simhost", nil }
func TempDir() string           { return "/tmp" }
func Getwd() (string, error)    { return "/", nil }
func Executable() (string, error) {
	if p := cur(); p != nil {
		return p.Path, nil
	}
	return "", os.ErrNotExist
}

func MkdirTemp(dir, pattern string) (string, error) { return k.W.MkdirTemp(dir, pattern) }
func CreateTemp(dir, pattern string) (*File, error) { return k.W.CreateTemp(dir, pattern) }
func Remove(name string) error                      { return k.W.Remove(name) }
func RemoveAll(name string) error                   { return k.W.RemoveAll(name) }
func Stat(name string) (FileInfo, error)            { cur(); return k.W.Stat(name) }
func Lstat(name string) (FileInfo, error)           { cur(); return k.W.Stat(name) }
func Open(name string) (*File, error)               { return k.W.Open(name) }
func Chown(name string, uid, gid int) error         { cur(); return k.W.Chown(name, uid, gid) }
func Chmod(name string, mode FileMode) error        { cur(); return k.W.Chmod(name, mode) }

func Mkdir(name string, perm FileMode) error {
	cur()
	if k.W.Exists(name) {
		return &fs.PathError{Op: "mkdir", Path: name, Err: syscall.EEXIST}
	}
	k.W.Mkdir(name)
	return nil
}

func MkdirAll(name string, perm FileMode) error {
	cur()
	if !k.W.Exists(name) {
		k.W.Mkdir(name)
	}
	return nil
}

func ReadFile(name string) ([]byte, error) {
	f, err := Open(name)
	if err != nil {
		return nil, err
	}
	defer f.Close()
	var out []byte
	buf := make([]byte, 4096)
	for {
		n, err := f.Read(buf)
		out = append(out, buf[:n]...)
		if err != nil {
			if err.Error() == "EOF" {
				return out, nil
			}
			return out, err
		}
	}
}

func WriteFile(name string, data []byte, perm FileMode) error {
	cur()
	k.W.WriteFile(name, data, perm)
	return nil
}

func Pipe() (r *File, w *File, err error) {
	p := cur()
	if k.W.FaultOn("pipe.emfile") && k.W.Flip("emfile/pipe", 100) {
		k.W.CountFault("pipe.emfile")
		return nil, nil, os.NewSyscallError("pipe2", syscall.EMFILE)
	}
	r, w = k.W.NewPipe(p, "pipe."+k.CurName(), 64<<10)
	return r, w, nil
}

func SameFile(fi1, fi2 FileInfo) bool { return k.SameFile(fi1, fi2) }
func IsNotExist(err error) bool       { return os.IsNotExist(err) }
func IsExist(err error) bool          { return os.IsExist(err) }
func IsPermission(err error) bool     { return os.IsPermission(err) }
func IsTimeout(err error) bool        { return os.IsTimeout(err) }

func NewSyscallError(syscall string, err error) error { return os.NewSyscallError(syscall, err) }

// Process is the simulated *os.Process.
type Process struct {
	Pid int
	p   *k.Proc
}

func NewProcess(p *k.Proc) *Process { return &Process{Pid: p.Pid, p: p} }

func (p *Process) KProc() *k.Proc { return p.p }

// FindProcess always succeeds on Unix.
func FindProcess(pid int) (*Process, error) {
	cur()
	return &Process{Pid: pid, p: k.W.ProcByPid(pid)}, nil
}

func (p *Process) Kill() error {
	cur()
	if p.p == nil {
		return os.ErrProcessDone
	}
	return p.p.Kill()
}

func (p *Process) Signal(sig Signal) error {
	cur()
	if p.p == nil {
		return os.ErrProcessDone
	}
	n := 0
	if s, ok := sig.(syscall.Signal); ok {
		n = int(s)
	}
	return p.p.SignalNum(n, sig)
}

func (p *Process) Release() error { return nil }

func (p *Process) Wait() (*ProcessState, error) {
	if p.p == nil {
		return nil, os.NewSyscallError("wait", syscall.ECHILD)
	}
	code, sig, err := p.p.Wait()
	if err != nil {
		return nil, os.NewSyscallError("wait", err)
	}
	return &ProcessState{pid: p.Pid, code: code, signaled: sig}, nil
}

type ProcessState struct {
	pid      int
	code     int
	signaled bool
}

func NewProcessState(pid, code int, signaled bool) *ProcessState {
	return &ProcessState{pid: pid, code: code, signaled: signaled}
}

func (s *ProcessState) ExitCode() int {
	if s.signaled {
		return -1
	}
	return s.code
}
func (s *ProcessState) Exited() bool  { return !s.signaled }
func (s *ProcessState) Success() bool { return !s.signaled && s.code == 0 }
func (s *ProcessState) Pid() int      { return s.pid }
func (s *ProcessState) Sys() any      { return nil }
func (s *ProcessState) String() string {
	if s.signaled {
		if s.code == 137 {
			return "signal: killed"
		}
		return "signal: terminated"
	}
	return "exit status " + itoa(s.code)
}

func itoa(n int) string {
	if n == 0 {
		return "0"
	}
	neg := n < 0
	if neg {
		n = -n
	}
	var b []byte
	for n > 0 {
		b = append([]byte{byte('0' + n%10)}, b...)
		n /= 10
	}
	if neg {
		b = append([]byte{'-'}, b...)
	}
	return string(b)
}
