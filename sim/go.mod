module simworld

go 1.26

require (
	github.com/anishathalye/porcupine v1.3.0
	github.com/golang/protobuf v1.5.3
	github.com/hashicorp/go-hclog v0.14.1
	github.com/hashicorp/yamux v0.1.1
	github.com/oklog/run v1.0.0
	google.golang.org/grpc v1.58.3
	google.golang.org/protobuf v1.36.1
)
