// Package plugins holds the plugin implementations served by simulated plugin
// processes and consumed by the simulated host: one generic "command" plugin
// spoken over both net/rpc and gRPC, through which a workload asks the plugin
// side to do things (accept or dial a brokered connection, write to its
// stdout, exit, sleep, ...).
package plugins

import (
	"context"
	"encoding/binary"
	"encoding/hex"
	"errors"
	"fmt"
	"github.com/hashicorp/yamux"
	"io"
	"net"
	"net/rpc"
	"reflect"
	"strconv"
	"strings"
	"sync"
	"time"
	"unsafe"

	plugin "simworld/goplugin"
	grpctest "simworld/goplugin/test/grpc"
	"simworld/k"
	"simworld/shim/simos"

	"google.golang.org/grpc"
)

// Shared is state shared between the plugin-side implementation objects of
// one simulated plugin process and the oracles (the harness is omniscient).
type Shared struct {
	mu       sync.Mutex
	Tag      string            // identity of the plugin set / version this implementation belongs to
	Served   int               // requests served by the implementation
	KV       map[string]string // state written through clients
	Objects  int               // server objects created (net/rpc Dispense)
	OnServe  func(op string)
	CtxDone  []context.Context
	Brokers  []any
	ExitHook func() // runs in the plugin before a requested exit (cleanup marker)
	// SlowServer: how long Plugin.Server() takes for a plugin name (net/rpc)
	SlowServer map[string]time.Duration
}

func NewShared(tag string) *Shared { return &Shared{Tag: tag, KV: map[string]string{}} }

func (s *Shared) ServedCount() int {
	s.mu.Lock()
	defer s.mu.Unlock()
	return s.Served
}

// Broker is the common face of MuxBroker and GRPCBroker for workloads.
type Broker interface {
	NextId() uint32
}

// Cmd is what a dispensed client offers to the workload.
type Cmd interface {
	Do(op, arg string) (string, error)
}

// ---- the server-side command interpreter -----------------------------------------

type impl struct {
	sh            *Shared
	objTag        string
	mux           *plugin.MuxBroker
	grpcb         *plugin.GRPCBroker
	kmu           sync.Mutex
	kept          map[uint32]*grpc.ClientConn
	heldListeners []io.Closer
	ownLn         map[uint32]net.Listener
	own           map[uint32]*grpc.Server
}

func (im *impl) do(op, arg string) (string, error) {
	im.sh.mu.Lock()
	im.sh.Served++
	hook := im.sh.OnServe
	im.sh.mu.Unlock()
	if hook != nil {
		hook(op)
	}
	k.Y("harness:impl.do:" + op)
	switch op {
	case "tag":
		return im.sh.Tag + "/" + im.objTag, nil
	case "echo":
		return arg, nil
	case "big":
		n, _ := strconv.Atoi(arg)
		return strings.Repeat("x", n), nil
	case "set":
		kk, v, _ := strings.Cut(arg, "=")
		im.sh.mu.Lock()
		im.sh.KV[kk] = v
		im.sh.mu.Unlock()
		return "", nil
	case "get":
		im.sh.mu.Lock()
		defer im.sh.mu.Unlock()
		return im.sh.KV[arg], nil
	case "sleep":
		ns, _ := strconv.ParseInt(arg, 10, 64)
		time.Sleep(time.Duration(ns))
		return "", nil
	case "exit":
		code, _ := strconv.Atoi(arg)
		simos.Exit(code)
	case "panic":
		panic("plugin panics on request: " + arg)
	case "stdout", "stderr":
		b, err := hex.DecodeString(arg)
		if err != nil {
			return "", err
		}
		f := simos.GetStdout()
		if op == "stderr" {
			f = simos.GetStderr()
		}
		n, err := f.Write(b)
		return strconv.Itoa(n), err
	case "nextid":
		if im.mux != nil {
			return strconv.Itoa(int(im.mux.NextId())), nil
		}
		return strconv.Itoa(int(im.grpcb.NextId())), nil
	case "accept":
		// accept a brokered connection on id (in the background) and serve
		// the identity "id=<n>" on it
		id64, _ := strconv.ParseUint(arg, 10, 32)
		id := uint32(id64)
		if im.mux != nil {
			go k.Trap(func() {
				conn, err := im.mux.Accept(id)
				k.W.Note("ret", fmt.Sprintf("plugin.Accept(%d)", id), errStr(err))
				if err != nil {
					return
				}
				ServeEcho(conn, id)
			})
			return "", nil
		}
		go k.Trap(func() {
			im.grpcb.AcceptAndServe(id, func(opts []grpc.ServerOption) *grpc.Server {
				return NewPingPongServer(opts, id, im.sh)
			})
		})
		return "", nil
	case "acceptwait":
		// net/rpc: Accept synchronously and report the outcome; the accepted
		// connection is served in the background
		id64, _ := strconv.ParseUint(arg, 10, 32)
		id := uint32(id64)
		if im.mux == nil {
			return "", errors.New("acceptwait: net/rpc only")
		}
		conn, err := im.mux.Accept(id)
		if err != nil {
			return "", err
		}
		go k.Trap(func() { ServeEcho(conn, id) })
		return "ok", nil
	case "acceptown":
		// Accept(id) and serve on the listener with a server of our own that can be stopped again
		id64, _ := strconv.ParseUint(arg, 10, 32)
		id := uint32(id64)
		if im.grpcb == nil {
			return "", errors.New("acceptown: gRPC only")
		}
		ln, err := im.grpcb.Accept(id)
		if err != nil {
			return "", err
		}
		srv := NewPingPongServer(nil, id, im.sh)
		im.kmu.Lock()
		if im.own == nil {
			im.own = map[uint32]*grpc.Server{}
			im.ownLn = map[uint32]net.Listener{}
		}
		im.own[id] = srv
		im.ownLn[id] = ln
		im.kmu.Unlock()
		go k.Trap(func() { srv.Serve(ln) })
		return "", nil
	case "reacceptown":
		// "<id>[:dc]": stop the server of id (which closes its listener) and
		// accept the same id again at once; with "dc" the old listener is then
		// closed a second time, as `defer ln.Close()` after a server's Stop does
		ids, mode, _ := strings.Cut(arg, ":")
		id64, _ := strconv.ParseUint(ids, 10, 32)
		id := uint32(id64)
		im.kmu.Lock()
		srv0, ln0 := im.own[id], im.ownLn[id]
		im.kmu.Unlock()
		if srv0 == nil {
			return "", errors.New("reacceptown: no such server")
		}
		srv0.Stop()
		ln, err := im.grpcb.Accept(id)
		if err != nil {
			return "", err
		}
		if mode == "dc" {
			ln0.Close()
		}
		srv := NewPingPongServer(nil, id, im.sh)
		im.kmu.Lock()
		im.own[id], im.ownLn[id] = srv, ln
		im.kmu.Unlock()
		go k.Trap(func() { srv.Serve(ln) })
		return "", nil
	case "stopown":
		id64, _ := strconv.ParseUint(arg, 10, 32)
		im.kmu.Lock()
		srv := im.own[uint32(id64)]
		delete(im.own, uint32(id64))
		im.kmu.Unlock()
		if srv == nil {
			return "", errors.New("stopown: no such server")
		}
		srv.Stop()
		return "", nil
	case "rawabort":
		// "<id>:<n>": open a broker stream, write n bytes of the id, close it
		ids, ns, _ := strings.Cut(arg, ":")
		id64, _ := strconv.ParseUint(ids, 10, 32)
		n, _ := strconv.Atoi(ns)
		if im.mux == nil {
			return "", errors.New("rawabort: net/rpc only")
		}
		return "", AbortStream(im.mux, uint32(id64), n)
	case "acceptonly":
		// take a listener for id and keep it open until the process ends
		id64, _ := strconv.ParseUint(arg, 10, 32)
		if im.grpcb == nil {
			return "", errors.New("acceptonly: gRPC only")
		}
		ln, err := im.grpcb.Accept(uint32(id64))
		if err != nil {
			return "", err
		}
		im.kmu.Lock()
		im.heldListeners = append(im.heldListeners, ln)
		im.kmu.Unlock()
		return ln.Addr().String(), nil
	case "acceptsync":
		// like accept but returns only once the listener exists (gRPC) — the
		// documented sequential establishment needs this
		id64, _ := strconv.ParseUint(arg, 10, 32)
		id := uint32(id64)
		if im.grpcb == nil {
			return "", errors.New("acceptsync: gRPC only")
		}
		ln, err := im.grpcb.Accept(id)
		if err != nil {
			return "", err
		}
		go k.Trap(func() {
			s := grpc.NewServer(ServerOptsFor(im.grpcb)...)
			grpctest.RegisterPingPongServer(s, &PingPong{Msg: fmt.Sprintf("id=%d", id), Sh: im.sh})
			s.Serve(ln)
		})
		return "", nil
	case "dialopts":
		// dial id with the shared custom options
		id64, _ := strconv.ParseUint(arg, 10, 32)
		if im.grpcb == nil {
			return "", errors.New("dialopts: gRPC only")
		}
		return DialPingWithOpts(im.grpcb, uint32(id64))
	case "dialbig":
		// dial id and fetch a large response through the brokered connection
		ids, ns, _ := strings.Cut(arg, ":")
		id64, _ := strconv.ParseUint(ids, 10, 32)
		n, _ := strconv.Atoi(ns)
		if im.grpcb == nil {
			return "", errors.New("dialbig: gRPC only")
		}
		conn, err := im.grpcb.Dial(uint32(id64))
		if err != nil {
			return "", err
		}
		defer conn.Close()
		got, err := BigOverConn(conn, n, 60*time.Second)
		if err != nil {
			return "", err
		}
		return strconv.Itoa(got), nil
	case "dialkeep":
		// dial, ping once, keep the connection for later "reping"
		id64, _ := strconv.ParseUint(arg, 10, 32)
		id := uint32(id64)
		if im.grpcb == nil {
			return "", errors.New("dialkeep: gRPC only")
		}
		conn, err := im.grpcb.Dial(id)
		if err != nil {
			return "", err
		}
		msg, err := PingConn(conn, 20*time.Second)
		if err != nil {
			conn.Close()
			return "", err
		}
		im.kmu.Lock()
		if im.kept == nil {
			im.kept = map[uint32]*grpc.ClientConn{}
		}
		im.kept[id] = conn
		im.kmu.Unlock()
		return msg, nil
	case "closekept":
		id64, _ := strconv.ParseUint(arg, 10, 32)
		im.kmu.Lock()
		conn := im.kept[uint32(id64)]
		delete(im.kept, uint32(id64))
		im.kmu.Unlock()
		if conn == nil {
			return "", errors.New("closekept: no kept connection")
		}
		return "", conn.Close()
	case "reping":
		id64, _ := strconv.ParseUint(arg, 10, 32)
		im.kmu.Lock()
		conn := im.kept[uint32(id64)]
		im.kmu.Unlock()
		if conn == nil {
			return "", errors.New("reping: no kept connection")
		}
		return PingConn(conn, 20*time.Second)
	case "dial":
		ids, sizes, _ := strings.Cut(arg, ":")
		id64, _ := strconv.ParseUint(ids, 10, 32)
		id := uint32(id64)
		size := 64
		if sizes != "" {
			size, _ = strconv.Atoi(strings.SplitN(sizes, ":", 2)[0])
		}
		if im.mux != nil {
			conn, err := im.mux.Dial(id)
			if err != nil {
				return "", err
			}
			defer conn.Close()
			ans, err := EchoOnce(conn, id, size)
			if err != nil || sizes == "" || !strings.Contains(sizes, ":") {
				return ans, err
			}
			// "<size>:<wait ns>:<late size>": use the connection again later
			parts := strings.Split(sizes, ":")
			if len(parts) == 3 {
				wait, _ := strconv.ParseInt(parts[1], 10, 64)
				late, _ := strconv.Atoi(parts[2])
				time.Sleep(time.Duration(wait))
				if _, err := EchoOnce(conn, id, late); err != nil {
					return ans, fmt.Errorf("late use of the dialled connection: %w", err)
				}
			}
			return ans, nil
		}
		conn, err := im.grpcb.Dial(id)
		if err != nil {
			return "", err
		}
		defer conn.Close()
		ctx, cancel := context.WithTimeout(context.Background(), 20*time.Second)
		defer cancel()
		resp, err := grpctest.NewPingPongClient(conn).Ping(ctx, &grpctest.PingRequest{})
		if err != nil {
			return "", err
		}
		return resp.Msg, nil
	}
	return "", fmt.Errorf("unknown op %q", op)
}

func errStr(err error) string {
	if err == nil {
		return "ok"
	}
	return "err: " + err.Error()
}

// ServerOptsFor returns the TLS server options a broker would use; the
// harness cannot see GRPCBroker.tls, so AcceptAndServe is the usual route and
// this returns none (used only for plaintext configurations).
func ServerOptsFor(b *plugin.GRPCBroker) []grpc.ServerOption { return nil }

// PingPong answers its fixed identity.
type PingPong struct {
	grpctest.UnimplementedPingPongServer
	Msg string
	Sh  *Shared
}

func (p *PingPong) Ping(ctx context.Context, _ *grpctest.PingRequest) (*grpctest.PongResponse, error) {
	if p.Sh != nil {
		p.Sh.mu.Lock()
		p.Sh.Served++
		p.Sh.mu.Unlock()
	}
	return &grpctest.PongResponse{Msg: p.Msg}, nil
}

// ServeEcho serves the MuxBroker byte protocol: read "<len>:<payload>", answer
// "id=<n>:<fnv of payload>".
func ServeEcho(conn io.ReadWriteCloser, id uint32) {
	defer conn.Close()
	for {
		var hdr [4]byte
		if _, err := io.ReadFull(conn, hdr[:]); err != nil {
			return
		}
		n := int(hdr[0]) | int(hdr[1])<<8 | int(hdr[2])<<16 | int(hdr[3])<<24
		buf := make([]byte, n)
		if _, err := io.ReadFull(conn, buf); err != nil {
			return
		}
		ans := fmt.Sprintf("id=%d:%08x:%d", id, fnv32(buf), n)
		out := append([]byte{byte(len(ans))}, ans...)
		if _, err := conn.Write(out); err != nil {
			return
		}
	}
}

// EchoOnce sends a payload derived from (id, size) and returns the answer.
func EchoOnce(conn io.ReadWriter, id uint32, size int) (string, error) {
	payload := make([]byte, size)
	for i := range payload {
		payload[i] = byte(uint32(i)*2654435761 + id)
	}
	hdr := []byte{byte(size), byte(size >> 8), byte(size >> 16), byte(size >> 24)}
	if _, err := conn.Write(append(hdr, payload...)); err != nil {
		return "", err
	}
	var l [1]byte
	if _, err := io.ReadFull(conn, l[:]); err != nil {
		return "", err
	}
	ans := make([]byte, int(l[0]))
	if _, err := io.ReadFull(conn, ans); err != nil {
		return "", err
	}
	want := fmt.Sprintf(":%08x:%d", fnv32(payload), size)
	if !strings.HasSuffix(string(ans), want) {
		return string(ans), fmt.Errorf("echo payload mismatch: got %q want suffix %q", ans, want)
	}
	return strings.TrimSuffix(string(ans), want), nil
}

func fnv32(p []byte) uint32 {
	h := uint32(2166136261)
	for _, c := range p {
		h ^= uint32(c)
		h *= 16777619
	}
	return h
}

// ---- net/rpc flavour ---------------------------------------------------------------

type RPCArgs struct{ Op, Arg string }

type rpcServer struct{ im *impl }

func (s *rpcServer) Do(a RPCArgs, resp *string) error {
	r, err := s.im.do(a.Op, a.Arg)
	*resp = r
	return err
}

// RPCClient is the host-side object returned by Dispense for net/rpc.
type RPCClient struct {
	C      *rpc.Client
	Broker *plugin.MuxBroker
}

func (c *RPCClient) Do(op, arg string) (string, error) {
	var resp string
	err := c.C.Call("Plugin.Do", RPCArgs{op, arg}, &resp)
	return resp, err
}

// ---- gRPC flavour ---------------------------------------------------------------------

// The service is declared by hand (no protoc in the sandbox) and reuses
// grpctest.PongResponse{msg} as the carrier in both directions: msg =
// "<op>\x00<arg>" for requests.
type cmdServer interface {
	Do(context.Context, *grpctest.PongResponse) (*grpctest.PongResponse, error)
	Stream(grpc.ServerStream) error
}

var cmdServiceDesc = grpc.ServiceDesc{
	ServiceName: "simharness.Cmd",
	HandlerType: (*cmdServer)(nil),
	Methods: []grpc.MethodDesc{{
		MethodName: "Do",
		Handler: func(srv interface{}, ctx context.Context, dec func(interface{}) error, interceptor grpc.UnaryServerInterceptor) (interface{}, error) {
			in := new(grpctest.PongResponse)
			if err := dec(in); err != nil {
				return nil, err
			}
			return srv.(cmdServer).Do(ctx, in)
		},
	}},
	Streams: []grpc.StreamDesc{{
		StreamName:    "Stream",
		Handler:       func(srv interface{}, stream grpc.ServerStream) error { return srv.(cmdServer).Stream(stream) },
		ServerStreams: true,
		ClientStreams: true,
	}},
}

type grpcCmdServer struct{ im *impl }

func (s *grpcCmdServer) Do(ctx context.Context, in *grpctest.PongResponse) (*grpctest.PongResponse, error) {
	op, arg, _ := strings.Cut(in.Msg, "\x00")
	r, err := s.im.do(op, arg)
	if err != nil {
		return nil, err
	}
	return &grpctest.PongResponse{Msg: r}, nil
}

// Stream echoes every message with a prefix until the client half-closes.
func (s *grpcCmdServer) Stream(st grpc.ServerStream) error {
	for {
		in := new(grpctest.PongResponse)
		if err := st.RecvMsg(in); err != nil {
			if err == io.EOF {
				return nil
			}
			return err
		}
		k.Y("harness:impl.stream")
		if err := st.SendMsg(&grpctest.PongResponse{Msg: "s:" + in.Msg}); err != nil {
			return err
		}
	}
}

// GRPCClient is the host-side object returned by Dispense for gRPC.
type GRPCClient struct {
	Conn   *grpc.ClientConn
	Broker *plugin.GRPCBroker
	Ctx    context.Context
}

func (c *GRPCClient) Do(op, arg string) (string, error) {
	return c.DoCtx(context.Background(), op, arg)
}

func (c *GRPCClient) DoCtx(ctx context.Context, op, arg string) (string, error) {
	out := new(grpctest.PongResponse)
	err := c.Conn.Invoke(ctx, "/simharness.Cmd/Do", &grpctest.PongResponse{Msg: op + "\x00" + arg}, out)
	if err != nil {
		return "", err
	}
	return out.Msg, nil
}

// StreamN opens the bidi stream, sends n messages and checks the echoes.
func (c *GRPCClient) StreamN(ctx context.Context, n int) error {
	st, err := c.Conn.NewStream(ctx, &cmdServiceDesc.Streams[0], "/simharness.Cmd/Stream")
	if err != nil {
		return err
	}
	for i := 0; i < n; i++ {
		msg := fmt.Sprintf("m%d", i)
		if err := st.SendMsg(&grpctest.PongResponse{Msg: msg}); err != nil {
			return err
		}
		out := new(grpctest.PongResponse)
		if err := st.RecvMsg(out); err != nil {
			return err
		}
		if out.Msg != "s:"+msg {
			return fmt.Errorf("stream echo mismatch: %q", out.Msg)
		}
	}
	return st.CloseSend()
}

// ---- the Plugin implementations ---------------------------------------------------------

// NetRPC is a net/rpc-only plugin.
type NetRPC struct {
	Sh *Shared
	// Name is the plugin name this entry is registered under (part of the
	// identity tag, so that a dispense reaching another dispense's server
	// object is visible).
	Name string
	// Fail: Server() returns an error (after the SlowServer delay)
	Fail bool
}

func (p *NetRPC) Server(b *plugin.MuxBroker) (interface{}, error) {
	if d := p.Sh.SlowServer[strings.TrimSuffix(p.Name, "/")]; d > 0 {
		time.Sleep(d)
	}
	if p.Fail {
		return nil, fmt.Errorf("cannot create the implementation of %s", p.Name)
	}
	p.Sh.mu.Lock()
	p.Sh.Objects++
	n := p.Sh.Objects
	p.Sh.Brokers = append(p.Sh.Brokers, b)
	p.Sh.mu.Unlock()
	return &rpcServer{im: &impl{sh: p.Sh, objTag: fmt.Sprintf("%sobj%d", p.Name, n), mux: b}}, nil
}

func (p *NetRPC) Client(b *plugin.MuxBroker, c *rpc.Client) (interface{}, error) {
	return &RPCClient{C: c, Broker: b}, nil
}

// GRPC is a plugin that speaks gRPC (and, like most real ones, embeds the
// net/rpc-unsupported stub).
type GRPC struct {
	plugin.NetRPCUnsupportedPlugin
	Sh *Shared
}

func (p *GRPC) GRPCServer(b *plugin.GRPCBroker, s *grpc.Server) error {
	p.Sh.mu.Lock()
	p.Sh.Brokers = append(p.Sh.Brokers, b)
	p.Sh.mu.Unlock()
	s.RegisterService(&cmdServiceDesc, &grpcCmdServer{im: &impl{sh: p.Sh, objTag: "grpc", grpcb: b}})
	return nil
}

func (p *GRPC) GRPCClient(ctx context.Context, b *plugin.GRPCBroker, c *grpc.ClientConn) (interface{}, error) {
	if p.Sh != nil {
		p.Sh.mu.Lock()
		p.Sh.CtxDone = append(p.Sh.CtxDone, ctx)
		p.Sh.mu.Unlock()
	}
	return &GRPCClient{Conn: c, Broker: b, Ctx: ctx}, nil
}

// Handshake is the handshake configuration shared by host and plugins.
var Handshake = plugin.HandshakeConfig{
	ProtocolVersion:  1,
	MagicCookieKey:   "SIM_PLUGIN_COOKIE",
	MagicCookieValue: "d1e7f4c2",
}

// NewPingPongServer builds a gRPC server answering "id=<n>"; it also carries
// the command service (without brokers) so that large messages can be sent
// over a brokered connection.
func NewPingPongServer(opts []grpc.ServerOption, id uint32, sh *Shared) *grpc.Server {
	s := grpc.NewServer(opts...)
	grpctest.RegisterPingPongServer(s, &PingPong{Msg: fmt.Sprintf("id=%d", id), Sh: sh})
	if sh == nil {
		sh = NewShared("brokered")
	}
	s.RegisterService(&cmdServiceDesc, &grpcCmdServer{im: &impl{sh: sh, objTag: fmt.Sprintf("brokered%d", id)}})
	return s
}

// BigOverConn asks the command service behind a brokered connection for n bytes.
func BigOverConn(conn grpc.ClientConnInterface, n int, timeout time.Duration) (int, error) {
	ctx, cancel := context.WithTimeout(context.Background(), timeout)
	defer cancel()
	out := new(grpctest.PongResponse)
	if err := conn.Invoke(ctx, "/simharness.Cmd/Do", &grpctest.PongResponse{Msg: "big\x00" + strconv.Itoa(n)}, out); err != nil {
		return 0, err
	}
	return len(out.Msg), nil
}

// GRPCConn is what PingConn needs.
type GRPCConn = grpc.ClientConnInterface

// PingConn makes one PingPong call on a brokered gRPC connection.
func PingConn(conn grpc.ClientConnInterface, timeout time.Duration) (string, error) {
	ctx, cancel := context.WithTimeout(context.Background(), timeout)
	defer cancel()
	resp, err := grpctest.NewPingPongClient(conn).Ping(ctx, &grpctest.PingRequest{})
	if err != nil {
		return "", err
	}
	return resp.Msg, nil
}

// CmdServiceDesc exposes the hand-written service descriptor (impostor servers).
func CmdServiceDesc() *grpc.ServiceDesc { return &cmdServiceDesc }

// NewGRPCCmdServer builds a command server without a broker.
func NewGRPCCmdServer(sh *Shared) any { return &grpcCmdServer{im: &impl{sh: sh, objTag: "raw"}} }

// AbortStream opens a stream on the yamux session of a net/rpc broker the way
// MuxBroker.Dial does, writes only the first n bytes (0-3) of the 4-byte ID
// and closes it: a peer that gives up in the middle of the negotiation. (The
// session is an unexported field; the harness reads the pointer.)
func AbortStream(b *plugin.MuxBroker, id uint32, n int) error {
	f := reflect.ValueOf(b).Elem().FieldByName("session")
	if !f.IsValid() || f.Kind() != reflect.Ptr {
		return errors.New("AbortStream: MuxBroker has no session field")
	}
	sess := (*yamux.Session)(unsafe.Pointer(f.Pointer()))
	st, err := sess.OpenStream()
	if err != nil {
		return err
	}
	var raw [4]byte
	binary.LittleEndian.PutUint32(raw[:], id)
	if n > 0 {
		if _, err := st.Write(raw[:n]); err != nil {
			st.Close()
			return err
		}
	}
	return st.Close()
}

// SharedDialOpts is a slice of custom dial options with spare capacity, the
// way a caller builds it by successive appends, used for EVERY brokered dial.
var SharedDialOpts = func() []grpc.DialOption {
	o := make([]grpc.DialOption, 0, 8)
	o = append(o, grpc.WithUserAgent("sim-host"), grpc.WithDefaultCallOptions(grpc.MaxCallRecvMsgSize(1<<26)), grpc.WithDisableServiceConfig())
	return o
}()

// DialPingWithOpts dials id through the gRPC broker with the shared options.
func DialPingWithOpts(b *plugin.GRPCBroker, id uint32) (string, error) {
	conn, err := b.DialWithOptions(id, SharedDialOpts...)
	if err != nil {
		return "", err
	}
	defer conn.Close()
	return PingConn(conn, 20*time.Second)
}
