// Package fidelity runs the same micro-scenarios against the real operating
// system (os, os/exec, net) and against the simulated kernel and compares the
// outcomes: the stub's fidelity for the behaviours go-plugin depends on is
// checked, not assumed. Run by setup.sh (plain `go test`, no overlay needed).
package fidelity

import (
	"errors"
	"fmt"
	"io"
	"net"
	"os"
	"os/exec"
	"path/filepath"
	"strings"
	"syscall"
	"testing"
	"time"

	"simworld/k"
	"simworld/shim/simexec"
	"simworld/shim/simnet"
	"simworld/shim/simos"
)

func errClass(err error) string {
	switch {
	case err == nil:
		return "nil"
	case errors.Is(err, io.EOF):
		return "EOF"
	case errors.Is(err, os.ErrProcessDone):
		return "ErrProcessDone"
	case errors.Is(err, syscall.ECONNREFUSED):
		return "ECONNREFUSED"
	case errors.Is(err, syscall.ENOENT):
		return "ENOENT"
	case errors.Is(err, syscall.EADDRINUSE):
		return "EADDRINUSE"
	case errors.Is(err, os.ErrDeadlineExceeded):
		return "timeout"
	case errors.Is(err, syscall.EPIPE), errors.Is(err, syscall.ECONNRESET):
		return "EPIPE/ECONNRESET"
	case errors.Is(err, os.ErrClosed), errors.Is(err, net.ErrClosed), strings.Contains(err.Error(), "file already closed"), strings.Contains(err.Error(), "closed"):
		return "closed"
	}
	return "other:" + err.Error()
}

// ---- real side ---------------------------------------------------------------------

func realScenarios(t *testing.T) map[string]string {
	out := map[string]string{}
	dir := t.TempDir()

	// 1. pipe: data then EOF when the child exits
	{
		cmd := exec.Command("/bin/sh", "-c", "printf x")
		p, _ := cmd.StdoutPipe()
		cmd.Start()
		b, err := io.ReadAll(p)
		cmd.Wait()
		out["pipe-eof-on-exit"] = fmt.Sprintf("%q %s", b, errClass(err))
	}
	// 2. Wait closes the parent's pipe end: reading afterwards fails
	{
		cmd := exec.Command("/bin/sh", "-c", "printf hello")
		p, _ := cmd.StdoutPipe()
		cmd.Start()
		cmd.Wait()
		_, err := p.Read(make([]byte, 8))
		out["read-after-wait"] = errClass(err)
	}
	// 3./4. signals to a reaped process
	{
		cmd := exec.Command("/bin/sh", "-c", "exit 3")
		cmd.Start()
		err := cmd.Wait()
		var ee *exec.ExitError
		errors.As(err, &ee)
		out["exit-code"] = fmt.Sprint(ee != nil && ee.ExitCode() == 3)
		out["kill-after-reap"] = errClass(cmd.Process.Kill())
		out["signal0-after-reap"] = errClass(cmd.Process.Signal(syscall.Signal(0)))
		live := exec.Command("/bin/sh", "-c", "sleep 5")
		live.Start()
		out["signal0-live"] = errClass(live.Process.Signal(syscall.Signal(0)))
		live.Process.Kill()
		werr := live.Wait()
		out["wait-after-sigkill"] = fmt.Sprint(werr != nil && strings.Contains(werr.Error(), "killed"))
	}
	// 5. unix listener creates its file, Close removes it
	{
		p := filepath.Join(dir, "l5")
		l, err := net.Listen("unix", p)
		_, serr := os.Stat(p)
		out["listen-creates-file"] = errClass(err) + " " + errClass(serr)
		l.Close()
		_, serr = os.Stat(p)
		out["close-unlinks"] = errClass(serr)
	}
	// 6. socket file survives SIGKILL of its owner; dialling it is refused
	{
		p := filepath.Join(dir, "l6")
		cmd := exec.Command("python3", "-c", "import socket,time,sys\ns=socket.socket(socket.AF_UNIX)\ns.bind(sys.argv[1])\ns.listen(5)\nprint('up',flush=True)\ntime.sleep(30)", p)
		so, _ := cmd.StdoutPipe()
		cmd.Start()
		buf := make([]byte, 3)
		io.ReadFull(so, buf)
		c, derr := net.Dial("unix", p)
		out["dial-live-listener"] = errClass(derr)
		if c != nil {
			c.Close()
		}
		cmd.Process.Kill()
		cmd.Wait()
		_, serr := os.Stat(p)
		out["file-after-sigkill"] = errClass(serr)
		_, derr = net.Dial("unix", p)
		out["dial-dead-listener"] = errClass(derr)
	}
	// 7./8.
	{
		_, err := net.Dial("unix", filepath.Join(dir, "nothing"))
		out["dial-no-file"] = errClass(err)
		p := filepath.Join(dir, "l8")
		l, _ := net.Listen("unix", p)
		_, err = net.Listen("unix", p)
		out["listen-twice"] = errClass(err)
		l.Close()
	}
	// 9./10. connect completes before accept; EOF after peer close
	{
		p := filepath.Join(dir, "l9")
		l, _ := net.Listen("unix", p)
		c, err := net.Dial("unix", p)
		_, werr := c.Write([]byte("early"))
		out["connect-before-accept"] = errClass(err) + " " + errClass(werr)
		s, _ := l.Accept()
		buf := make([]byte, 5)
		io.ReadFull(s, buf)
		out["data-before-accept"] = string(buf)
		c.Close()
		_, rerr := s.Read(buf)
		out["read-after-peer-close"] = errClass(rerr)
		s.Write([]byte("x"))
		time.Sleep(10 * time.Millisecond)
		_, werr = s.Write([]byte("y"))
		out["write-after-peer-close"] = errClass(werr)
		s.Close()
		l.Close()
	}
	// 11. duplicate environment keys: the child sees the last assignment
	{
		cmd := exec.Command("/bin/sh", "-c", "printf %s \"$FID_VAR\"")
		cmd.Env = []string{"PATH=/bin:/usr/bin", "FID_VAR=first", "FID_VAR=second"}
		b, _ := cmd.Output()
		out["env-dup-last-wins"] = string(b)
	}
	// 12. starting a missing binary
	{
		err := exec.Command(filepath.Join(dir, "no-such-binary")).Start()
		out["start-missing"] = errClass(err)
	}
	// 13. a live listener whose socket file (or its directory) was removed is
	// out of reach by path; connections made before stay up
	{
		d := filepath.Join(dir, "d13")
		os.Mkdir(d, 0o755)
		p := filepath.Join(d, "sock")
		l, _ := net.Listen("unix", p)
		l.(*net.UnixListener).SetUnlinkOnClose(false)
		c1, err1 := net.Dial("unix", p)
		os.RemoveAll(d)
		_, err2 := net.Dial("unix", p)
		out["dial-after-dir-removed"] = errClass(err1) + " " + errClass(err2)
		s1, _ := l.Accept()
		c1.Write([]byte("still"))
		buf := make([]byte, 5)
		_, rerr := io.ReadFull(s1, buf)
		out["old-conn-after-dir-removed"] = string(buf) + " " + errClass(rerr)
		c1.Close()
		s1.Close()
		l.Close()
	}
	// 14. a deadline that has passed fails every later read and write at once,
	// even with data waiting or room in the buffer; clearing it heals the socket
	{
		p := filepath.Join(dir, "l14")
		l, _ := net.Listen("unix", p)
		c, _ := net.Dial("unix", p)
		s, _ := l.Accept()
		s.Write([]byte("data"))
		time.Sleep(20 * time.Millisecond)
		c.SetDeadline(time.Now().Add(-time.Second))
		_, werr := c.Write([]byte("x"))
		_, rerr := c.Read(make([]byte, 4))
		out["io-after-deadline"] = errClass(werr) + " " + errClass(rerr)
		c.SetReadDeadline(time.Time{})
		_, werr = c.Write([]byte("x"))
		_, rerr = c.Read(make([]byte, 4))
		out["io-after-read-deadline-cleared"] = errClass(werr) + " " + errClass(rerr)
		c.Close()
		s.Close()
		l.Close()
	}
	return out
}

// ---- simulated side ----------------------------------------------------------------

func simScenarios(t *testing.T) map[string]string {
	out := map[string]string{}
	w := k.Boot(&k.Spec{Prop: "fidelity", Seed: 1})
	host := w.NewHost("host", []string{"PATH=/bin"})
	_ = host
	prog := func(path string, main func()) { w.RegisterProgram(path, []byte("x"), main) }

	{
		prog("/bin/printx", func() { simos.GetStdout().Write([]byte("x")) })
		cmd := simexec.Command("/bin/printx")
		p, _ := cmd.StdoutPipe()
		cmd.Start()
		b, err := io.ReadAll(p)
		cmd.Wait()
		out["pipe-eof-on-exit"] = fmt.Sprintf("%q %s", b, errClass(err))
	}
	{
		prog("/bin/hello", func() { simos.GetStdout().Write([]byte("hello")) })
		cmd := simexec.Command("/bin/hello")
		cmd.SimName = "p2"
		p, _ := cmd.StdoutPipe()
		cmd.Start()
		cmd.Wait()
		_, err := p.Read(make([]byte, 8))
		out["read-after-wait"] = errClass(err)
	}
	{
		prog("/bin/exit3", func() { simos.Exit(3) })
		cmd := simexec.Command("/bin/exit3")
		cmd.SimName = "p3"
		cmd.Start()
		err := cmd.Wait()
		var ee *simexec.ExitError
		errors.As(err, &ee)
		out["exit-code"] = fmt.Sprint(ee != nil && ee.ExitCode() == 3)
		out["kill-after-reap"] = errClass(cmd.Process.Kill())
		out["signal0-after-reap"] = errClass(cmd.Process.Signal(syscall.Signal(0)))
		prog("/bin/sleep", func() { select {} })
		live := simexec.Command("/bin/sleep")
		live.SimName = "p4"
		live.Start()
		out["signal0-live"] = errClass(live.Process.Signal(syscall.Signal(0)))
		live.Process.Kill()
		werr := live.Wait()
		out["wait-after-sigkill"] = fmt.Sprint(werr != nil && strings.Contains(werr.Error(), "killed"))
	}
	{
		l, err := simnet.Listen("unix", "/tmp/l5")
		_, serr := simos.Stat("/tmp/l5")
		out["listen-creates-file"] = errClass(err) + " " + errClass(serr)
		l.Close()
		_, serr = simos.Stat("/tmp/l5")
		out["close-unlinks"] = errClass(serr)
	}
	{
		up := make(chan bool)
		prog("/bin/listener", func() {
			simnet.Listen("unix", "/tmp/l6")
			up <- true
			select {}
		})
		cmd := simexec.Command("/bin/listener")
		cmd.SimName = "p6"
		cmd.Start()
		<-up
		c, derr := simnet.Dial("unix", "/tmp/l6")
		out["dial-live-listener"] = errClass(derr)
		if c != nil {
			c.Close()
		}
		cmd.Process.Kill()
		cmd.Wait()
		_, serr := simos.Stat("/tmp/l6")
		out["file-after-sigkill"] = errClass(serr)
		_, derr = simnet.Dial("unix", "/tmp/l6")
		out["dial-dead-listener"] = errClass(derr)
	}
	{
		_, err := simnet.Dial("unix", "/tmp/nothing")
		out["dial-no-file"] = errClass(err)
		l, _ := simnet.Listen("unix", "/tmp/l8")
		_, err = simnet.Listen("unix", "/tmp/l8")
		out["listen-twice"] = errClass(err)
		l.Close()
	}
	{
		l, _ := simnet.Listen("unix", "/tmp/l9")
		c, err := simnet.Dial("unix", "/tmp/l9")
		_, werr := c.Write([]byte("early"))
		out["connect-before-accept"] = errClass(err) + " " + errClass(werr)
		s, _ := l.Accept()
		buf := make([]byte, 5)
		io.ReadFull(s, buf)
		out["data-before-accept"] = string(buf)
		c.Close()
		_, rerr := s.Read(buf)
		out["read-after-peer-close"] = errClass(rerr)
		s.Write([]byte("x"))
		_, werr = s.Write([]byte("y"))
		out["write-after-peer-close"] = errClass(werr)
		s.Close()
		l.Close()
	}
	{
		var seen string
		prog("/bin/env", func() { seen = simos.Getenv("FID_VAR") })
		cmd := simexec.Command("/bin/env")
		cmd.SimName = "p11"
		cmd.Env = []string{"PATH=/bin:/usr/bin", "FID_VAR=first", "FID_VAR=second"}
		cmd.Run()
		out["env-dup-last-wins"] = seen
	}
	{
		err := simexec.Command("/bin/no-such-binary").Start()
		out["start-missing"] = errClass(err)
	}
	{
		simos.Mkdir("/tmp/d13", 0o755)
		l, _ := simnet.Listen("unix", "/tmp/d13/sock")
		c1, err1 := simnet.Dial("unix", "/tmp/d13/sock")
		simos.RemoveAll("/tmp/d13")
		_, err2 := simnet.Dial("unix", "/tmp/d13/sock")
		out["dial-after-dir-removed"] = errClass(err1) + " " + errClass(err2)
		s1, _ := l.Accept()
		c1.Write([]byte("still"))
		buf := make([]byte, 5)
		_, rerr := io.ReadFull(s1, buf)
		out["old-conn-after-dir-removed"] = string(buf) + " " + errClass(rerr)
		c1.Close()
		s1.Close()
		l.Close()
	}
	{
		l, _ := simnet.Listen("unix", "/tmp/l14")
		c, _ := simnet.Dial("unix", "/tmp/l14")
		s, _ := l.Accept()
		s.Write([]byte("data"))
		c.SetDeadline(time.Now().Add(-time.Second))
		_, werr := c.Write([]byte("x"))
		_, rerr := c.Read(make([]byte, 4))
		out["io-after-deadline"] = errClass(werr) + " " + errClass(rerr)
		c.SetReadDeadline(time.Time{})
		_, werr = c.Write([]byte("x"))
		_, rerr = c.Read(make([]byte, 4))
		out["io-after-read-deadline-cleared"] = errClass(werr) + " " + errClass(rerr)
		c.Close()
		s.Close()
		l.Close()
	}
	return out
}

func TestKernelFidelity(t *testing.T) {
	real := realScenarios(t)
	sim := simScenarios(t)
	bad := 0
	for _, key := range k.SortedKeys(real) {
		mark := "ok "
		if real[key] != sim[key] {
			mark = "DIFF"
			bad++
		}
		t.Logf("%s %-26s real=%-28q sim=%q", mark, key, real[key], sim[key])
	}
	if len(sim) != len(real) {
		t.Errorf("scenario sets differ: %d vs %d", len(real), len(sim))
	}
	if bad > 0 {
		t.Errorf("%d scenario(s) behave differently on the real OS and in the simulated kernel", bad)
	}
}
