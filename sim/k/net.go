package k

import (
	"fmt"
	"net"
	"os"
	"strconv"
	"sync"
	"time"
)

// Listener is a listening socket (unix path or tcp port).
type Listener struct {
	id       int
	w        *World
	Network  string
	Address  string // as seen by the owner (what Addr() reports)
	Global   string // global address (unix: path after mount resolution)
	key      string
	owner    *Proc
	mu       sync.Mutex
	n        notifier
	backlog  []*Endpoint
	closed   bool
	dl       deadliner
	Accepted int
}

func (l *Listener) kid() int { return l.id }

type OpError = net.OpError

// PortMap publishes the TCP ports of namespace To in namespace From, shifted:
// a process in From that dials port p reaches the listener on p-Shift in To
// (a container's port mapping).
type PortMap struct {
	From, To string
	Shift    int
}

func opErr(op, network string, addr net.Addr, err error) error {
	return &net.OpError{Op: op, Net: network, Addr: addr, Err: err}
}

func mkAddr(network, address string) net.Addr {
	if network == "unix" {
		return &net.UnixAddr{Name: address, Net: "unix"}
	}
	host, port, _ := net.SplitHostPort(address)
	pn, _ := strconv.Atoi(port)
	return &net.TCPAddr{IP: net.ParseIP(host), Port: pn}
}

// Listen creates a listening socket for the calling process.
//
//go:norace
func (w *World) Listen(network, address string) (*Listener, error) {
	cur := Cur()
	cur.gate()
	global := ""
	if w.FaultOn("listen.fail") && w.Flip("listenfail/"+CurName(), 150) {
		w.CountFault("listen.fail")
		return nil, opErr("listen", network, nil, EMFILE)
	}
	switch network {
	case "unix":
		address = clean(address)
		global = w.rp(address)
		w.mu.Lock()
		if w.fs[global] != nil {
			w.mu.Unlock()
			return nil, opErr("listen", network, mkAddr(network, address), os.NewSyscallError("bind", EADDRINUSE))
		}
		dir := parentDir(global)
		if d := w.fs[dir]; d == nil || d.Kind != KDir {
			w.mu.Unlock()
			return nil, opErr("listen", network, mkAddr(network, address), os.NewSyscallError("bind", ENOENT))
		}
		w.fs[global] = &Node{Kind: KSocket, Mode: 0o755, Creator: CurName(), ReadErrAt: -1}
		w.mu.Unlock()
	case "tcp", "tcp4":
		network = "tcp"
		host, port, err := net.SplitHostPort(address)
		if err != nil {
			return nil, opErr("listen", network, nil, err)
		}
		if host == "" || host == "localhost" {
			host = "127.0.0.1"
		}
		pn, err := strconv.Atoi(port)
		if err != nil || pn < 0 || pn > 65535 {
			return nil, opErr("listen", network, nil, fmt.Errorf("invalid port %q", port))
		}
		// a process in a network namespace of its own has its own ports
		ns := ""
		if cur != nil && cur.NetNS != "" {
			ns = "@" + cur.NetNS + "/"
		}
		w.mu.Lock()
		if pn == 0 {
			for {
				w.nextPort++
				if w.listeners["tcp:"+ns+host+":"+strconv.Itoa(w.nextPort)] == nil {
					break
				}
			}
			pn = w.nextPort
		}
		address = host + ":" + strconv.Itoa(pn)
		if w.listeners["tcp:"+ns+address] != nil || (ns == "" && w.portBusy(pn)) {
			w.mu.Unlock()
			return nil, opErr("listen", network, mkAddr(network, address), os.NewSyscallError("bind", EADDRINUSE))
		}
		w.mu.Unlock()
		global = ns + address
	default:
		return nil, opErr("listen", network, nil, net.UnknownNetworkError(network))
	}
	if global == "" {
		global = address
	}
	w.mu.Lock()
	l := &Listener{id: newKid(), w: w, Network: network, Address: address, Global: global, key: network + ":" + global, owner: cur}
	w.listeners[l.key] = l
	w.mu.Unlock()
	if cur != nil {
		cur.addFd(l)
	}
	w.Ev(cur, "listen", l.key, "")
	return l, nil
}

// BusyPorts lets a scenario occupy TCP ports (bound by someone else).
//
//go:norace
func (w *World) portBusy(p int) bool { return w.busyPorts[p] }

//go:norace
func (w *World) SetPortBusy(p int) {
	w.mu.Lock()
	if w.busyPorts == nil {
		w.busyPorts = map[int]bool{}
	}
	w.busyPorts[p] = true
	w.mu.Unlock()
}

func parentDir(p string) string {
	for i := len(p) - 1; i > 0; i-- {
		if p[i] == '/' {
			return p[:i]
		}
	}
	return "/"
}

func (l *Listener) Addr() net.Addr { return mkAddr(l.Network, l.Address) }

func (l *Listener) Owner() *Proc { return l.owner }

//go:norace
func (l *Listener) Accept() (*Endpoint, error) {
	for {
		l.owner.gate()
		dlT, dlCh := l.dl.get()
		l.mu.Lock()
		if l.closed {
			l.mu.Unlock()
			return nil, opErr("accept", l.Network, l.Addr(), net.ErrClosed)
		}
		if len(l.backlog) > 0 {
			e := l.backlog[0]
			l.backlog = l.backlog[1:]
			l.Accepted++
			l.mu.Unlock()
			e.accepted = true
			l.w.Ev(l.owner, "accept", l.key, e.name)
			return e, nil
		}
		if !dlT.IsZero() && !dlT.After(time.Now()) {
			l.mu.Unlock()
			return nil, opErr("accept", l.Network, l.Addr(), errTimeout)
		}
		ch := l.n.wait()
		l.mu.Unlock()
		if !dlT.IsZero() {
			t := time.NewTimer(time.Until(dlT))
			select {
			case <-ch:
			case <-dlCh:
			case <-t.C:
			}
			t.Stop()
		} else {
			select {
			case <-ch:
			case <-dlCh:
			}
		}
	}
}

func (l *Listener) SetDeadline(t time.Time) error { l.dl.set(t); return nil }

// Close closes the listener; a unix listener created by Listen unlinks its
// socket file, as net.UnixListener does.
func (l *Listener) Close() error {
	l.owner.gate()
	l.mu.Lock()
	if l.closed {
		l.mu.Unlock()
		return opErr("close", l.Network, l.Addr(), net.ErrClosed)
	}
	l.mu.Unlock()
	l.kclose(false)
	return nil
}

//go:norace
func (l *Listener) kclose(byExit bool) {
	l.mu.Lock()
	if l.closed {
		l.mu.Unlock()
		return
	}
	l.closed = true
	pend := l.backlog
	l.backlog = nil
	l.n.broadcast()
	l.mu.Unlock()
	w := l.w
	w.mu.Lock()
	if w.listeners[l.key] == l {
		delete(w.listeners, l.key)
	}
	unlinked := false
	if !byExit && l.Network == "unix" {
		if n := w.fs[l.Global]; n != nil && n.Kind == KSocket {
			delete(w.fs, l.Global)
			unlinked = true
		}
	}
	w.mu.Unlock()
	if !byExit && l.owner != nil {
		l.owner.delFd(l)
	}
	for _, e := range pend {
		e.resetBoth()
	}
	arg := ""
	if byExit {
		arg = "by-exit"
	}
	w.Ev(l.owner, "unlisten", l.key, arg)
	if unlinked {
		w.Ev(l.owner, "unlink", l.Global, "socket")
	}
}

// ListenerAt returns the live listener at an address, if any.
//
//go:norace
func (w *World) ListenerAt(network, address string) *Listener {
	if network == "unix" {
		address = clean(address)
	}
	w.mu.Lock()
	defer w.mu.Unlock()
	return w.listeners[network+":"+address]
}

// Listeners lists live listeners (intruder uses this to learn addresses).
//
//go:norace
func (w *World) Listeners() []*Listener {
	w.mu.Lock()
	defer w.mu.Unlock()
	var out []*Listener
	for _, k := range SortedKeys(w.listeners) {
		out = append(out, w.listeners[k])
	}
	return out
}

// Endpoint is one end of an established stream connection.
type Endpoint struct {
	id       int
	w        *World
	name     string
	network  string
	local    net.Addr
	remote   net.Addr
	rd, wr   *pipeBuf
	owner    *Proc
	peer     *Endpoint
	mu       sync.Mutex
	closed   bool
	rdl, wdl deadliner
	accepted bool
	dialer   bool
	lkey     string
}

func (e *Endpoint) kid() int { return e.id }

func (e *Endpoint) Name() string { return e.name }

// Dial connects the calling process to a listener. The connection is
// established as soon as it is in the backlog, as with a real kernel.
//
//go:norace
func (w *World) Dial(network, address string) (*Endpoint, error) {
	cur := Cur()
	cur.gate()
	if network == "tcp4" {
		network = "tcp"
	}
	raddr := mkAddr(network, address)
	if network == "unix" {
		address = w.rp(address)
	} else if network == "tcp" {
		host, port, err := net.SplitHostPort(address)
		if err != nil {
			return nil, opErr("dial", network, nil, err)
		}
		if host == "" || host == "localhost" {
			host = "127.0.0.1"
		}
		address = host + ":" + port
		raddr = mkAddr(network, address)
	} else {
		return nil, opErr("dial", network, nil, net.UnknownNetworkError(network))
	}
	if w.FaultOn("dial.slow") {
		if d := w.Delay("dialslow/"+CurName(), "mid", 150); d > 0 {
			w.CountFault("dial.slow")
			w.addInjected(d)
			time.Sleep(d)
			cur.gate()
		}
	}
	if w.FaultOn("dial.refused") && w.Flip("dialrefused/"+CurName(), 100) {
		w.CountFault("dial.refused")
		w.Ev(cur, "dialfail", network+":"+address, "injected")
		return nil, opErr("dial", network, raddr, os.NewSyscallError("connect", ECONNREFUSED))
	}
	w.mu.Lock()
	l := w.listeners[network+":"+address]
	if network == "tcp" {
		// network namespaces: a published port of another namespace first, then
		// the caller's own namespace
		ns := ""
		if cur != nil {
			ns = cur.NetNS
		}
		l = nil
		if host, port, err := net.SplitHostPort(address); err == nil {
			pn, _ := strconv.Atoi(port)
			for _, pm := range w.PortMaps {
				if pm.From == ns {
					to := ""
					if pm.To != "" {
						to = "@" + pm.To + "/"
					}
					if cand := w.listeners["tcp:"+to+host+":"+strconv.Itoa(pn-pm.Shift)]; cand != nil {
						l = cand
						break
					}
				}
			}
		}
		if l == nil {
			own := ""
			if ns != "" {
				own = "@" + ns + "/"
			}
			l = w.listeners["tcp:"+own+address]
		}
	}
	var nodeMissing bool
	if network == "unix" {
		nodeMissing = w.fs[address] == nil
	}
	if l == nil || nodeMissing {
		// (a Unix listener whose socket file has been unlinked - or whose
		// directory was removed - is out of reach by path: ENOENT, as on Linux)
		w.mu.Unlock()
		e := error(ECONNREFUSED)
		if nodeMissing {
			e = ENOENT
		}
		w.Ev(cur, "dialfail", network+":"+address, e.Error())
		return nil, opErr("dial", network, raddr, os.NewSyscallError("connect", e))
	}
	w.nextConn++
	cn := w.nextConn
	capacity := 64 << 10
	name := fmt.Sprintf("c%d", cn)
	c2s := newPipeBuf(name+">", capacity)
	s2c := newPipeBuf(name+"<", capacity)
	var laddr net.Addr
	if network == "unix" {
		laddr = &net.UnixAddr{Name: "", Net: "unix"}
	} else {
		laddr = &net.TCPAddr{IP: net.ParseIP("127.0.0.1"), Port: 40000 + cn}
	}
	ce := &Endpoint{id: newKid(), w: w, name: name + ".d", network: network, local: laddr, remote: raddr, rd: s2c, wr: c2s, owner: cur, dialer: true, lkey: l.key}
	se := &Endpoint{id: newKid(), w: w, name: name + ".a", network: network, local: raddr, remote: laddr, rd: c2s, wr: s2c, owner: l.owner, lkey: l.key}
	ce.peer, se.peer = se, ce
	w.mu.Unlock()
	if w.FaultOn("sock.smallbuf") {
		if v := w.Range("sockcap/"+name, 6); v > 0 {
			c := []int{0, 1, 16, 256, 1024, 4096}[v]
			c2s.cap, s2c.cap = c, c
			w.CountFault("sock.smallbuf")
		}
	}
	l.mu.Lock()
	if l.closed {
		l.mu.Unlock()
		w.Ev(cur, "dialfail", l.key, "listener closed")
		return nil, opErr("dial", network, raddr, os.NewSyscallError("connect", ECONNREFUSED))
	}
	l.backlog = append(l.backlog, se)
	l.n.broadcast()
	l.mu.Unlock()
	if cur != nil {
		cur.addFd(ce)
	}
	if l.owner != nil {
		l.owner.addFd(se)
	}
	w.Ev(cur, "dial", l.key, name)
	return ce, nil
}

func (e *Endpoint) LocalAddr() net.Addr  { return e.local }
func (e *Endpoint) RemoteAddr() net.Addr { return e.remote }
func (e *Endpoint) Network() string      { return e.network }
func (e *Endpoint) Owner() *Proc         { return e.owner }
func (e *Endpoint) ListenerKey() string  { return e.lkey }

func (e *Endpoint) Read(p []byte) (int, error) {
	limit := 0
	if e.w.FaultOn("conn.chunk") {
		if v := e.w.Range("cchunk/"+e.name, 8); v > 0 {
			limit = []int{0, 1, 2, 5, 9, 64, 500, 4000}[v]
			e.w.CountFault("conn.chunk")
		}
	}
	n, err := e.rd.read(p, &e.rdl, e.owner, limit, net.ErrClosed)
	if err != nil && err != errTimeout && err.Error() != "EOF" {
		err = opErr("read", e.network, e.remote, err)
	} else if err == errTimeout {
		err = opErr("read", e.network, e.remote, errTimeout)
	}
	return n, err
}

func (e *Endpoint) Write(p []byte) (int, error) {
	var lat time.Duration
	w := e.w
	if w.FaultOn("conn.latency") {
		lat = w.Delay("lat/"+e.name, w.latClass(), 60)
		if lat > 0 {
			w.CountFault("conn.latency")
			w.addInjected(lat)
		}
	}
	if w.FaultOn("conn.rst") && w.Flip("rst/"+e.name, 8) {
		w.CountFault("conn.rst")
		w.Ev(e.owner, "rst", e.name, "injected")
		e.resetBoth()
	}
	if tap := w.OnConnWrite; tap != nil {
		tap(e, p)
	}
	n, err := e.wr.write(p, &e.wdl, e.owner, lat, net.ErrClosed)
	if n > 0 {
		w.Ev(e.owner, "write", e.name, fmt.Sprintf("%d %08x", n, fnv32(p[:n])))
	}
	if err != nil {
		err = opErr("write", e.network, e.remote, err)
	}
	return n, err
}

//go:norace
func (w *World) latClass() string {
	if c := w.Spec.P("latclass", ""); c != "" {
		return c
	}
	return "tiny"
}

func (e *Endpoint) resetBoth() {
	e.rd.doReset()
	e.wr.doReset()
}

// Reset is an injected RST from the harness.
func (e *Endpoint) Reset() { e.resetBoth() }

func (e *Endpoint) Close() error {
	e.owner.gate()
	e.mu.Lock()
	if e.closed {
		e.mu.Unlock()
		return opErr("close", e.network, e.remote, net.ErrClosed)
	}
	e.mu.Unlock()
	e.kclose(false)
	return nil
}

func (e *Endpoint) kclose(byExit bool) {
	e.mu.Lock()
	if e.closed {
		e.mu.Unlock()
		return
	}
	e.closed = true
	e.mu.Unlock()
	if !byExit && e.owner != nil {
		e.owner.delFd(e)
	}
	// unread inbound data at close => the peer gets a reset (TCP semantics);
	// otherwise an orderly EOF.
	e.wr.closeWrite()
	e.rd.closeRead()
	arg := ""
	if byExit {
		arg = "by-exit"
	}
	e.w.Ev(e.owner, "close", e.name, arg)
}

func (e *Endpoint) CloseWrite() error {
	e.wr.closeWrite()
	return nil
}

func (e *Endpoint) CloseRead() error {
	e.rd.closeRead()
	return nil
}

func (e *Endpoint) SetDeadline(t time.Time) error {
	e.rdl.set(t)
	e.wdl.set(t)
	return nil
}
func (e *Endpoint) SetReadDeadline(t time.Time) error  { e.rdl.set(t); return nil }
func (e *Endpoint) SetWriteDeadline(t time.Time) error { e.wdl.set(t); return nil }

func (e *Endpoint) Closed() bool {
	e.mu.Lock()
	defer e.mu.Unlock()
	return e.closed
}

// IsClosed reports whether the listener has been closed.
//
//go:norace
func (l *Listener) IsClosed() bool {
	l.mu.Lock()
	defer l.mu.Unlock()
	return l.closed
}
