package k

import (
	"fmt"
	"io"
	"io/fs"
	"os"
	"sync"
	"time"
)

type fileKind int

const (
	fNull fileKind = iota // reads EOF, writes vanish
	fSink                 // writes are collected (host's own stdout/stderr)
	fPipeR
	fPipeW
	fReg
)

var nextKid int

//go:norace
func newKid() int {
	nextKid++
	return nextKid
}

// pipeShared counts the open references to each end of a pipe, the way the
// kernel's file table does: the read side sees EOF only when every duplicate
// of the write end is closed.
type pipeShared struct {
	mu      sync.Mutex
	buf     *pipeBuf
	writers int
	readers int
}

// File is the simulated *os.File.
type File struct {
	id     int
	name   string
	kind   fileKind
	owner  *Proc
	sh     *pipeShared
	mu     sync.Mutex
	closed bool
	data   []byte // fReg contents / fSink collection
	off    int
	node   *Node
	path   string
	Tap    func(p []byte) // observer of raw writes (handshake tap)
	sinkOf *File
}

func (f *File) kid() int { return f.id }

func newNullFile(p *Proc, name string) *File {
	return &File{id: newKid(), name: name, kind: fNull, owner: p}
}

func newSinkFile(p *Proc, name string) *File {
	return &File{id: newKid(), name: name, kind: fSink, owner: p}
}

// NewPipe is os.Pipe for process p (nil: kernel-owned).
//
//go:norace
func (w *World) NewPipe(p *Proc, name string, capacity int) (r, wr *File) {
	sh := &pipeShared{buf: newPipeBuf(name, capacity), writers: 1, readers: 1}
	w.mu.Lock()
	r = &File{id: newKid(), name: name + ":r", kind: fPipeR, owner: p, sh: sh}
	wr = &File{id: newKid(), name: name + ":w", kind: fPipeW, owner: p, sh: sh}
	w.mu.Unlock()
	if p != nil {
		p.addFd(r)
		p.addFd(wr)
	}
	return
}

// dupFor gives process p its own reference to the same open file.
//
//go:norace
func (f *File) dupFor(p *Proc) *File {
	W.mu.Lock()
	id := newKid()
	W.mu.Unlock()
	nf := &File{id: id, name: f.name, kind: f.kind, owner: p, sh: f.sh, node: f.node, path: f.path, Tap: f.Tap}
	if f.sh != nil {
		f.sh.mu.Lock()
		if f.kind == fPipeW {
			f.sh.writers++
		} else if f.kind == fPipeR {
			f.sh.readers++
		}
		f.sh.mu.Unlock()
	}
	if f.kind == fSink {
		// share the collection with the original
		nf.kind = fSink
		nf.sinkOf = f
	}
	p.addFd(nf)
	return nf
}

func (f *File) Name() string { return f.name }

var ErrClosed = os.ErrClosed

func (f *File) Read(p []byte) (int, error) {
	if f == nil {
		return 0, os.ErrInvalid
	}
	f.mu.Lock()
	closed := f.closed
	f.mu.Unlock()
	if closed {
		return 0, &fs.PathError{Op: "read", Path: f.name, Err: ErrClosed}
	}
	switch f.kind {
	case fNull, fSink:
		f.owner.gate()
		return 0, io.EOF
	case fPipeR:
		limit := 0
		if W.FaultOn("pipe.chunk") {
			if v := W.Range("chunk/"+f.sh.buf.name, 8); v > 0 {
				limit = []int{0, 1, 2, 3, 7, 16, 100, 1000}[v]
				W.CountFault("pipe.chunk")
			}
		}
		n, err := f.sh.buf.read(p, nil, f.owner, limit, &fs.PathError{Op: "read", Path: f.name, Err: ErrClosed})
		return n, err
	case fReg:
		f.owner.gate()
		f.mu.Lock()
		defer f.mu.Unlock()
		if f.node != nil && f.node.ReadErrAt >= 0 && f.off >= f.node.ReadErrAt {
			W.CountFault("fs.eio")
			return 0, &fs.PathError{Op: "read", Path: f.path, Err: EIO}
		}
		if f.off >= len(f.data) {
			return 0, io.EOF
		}
		n := copy(p, f.data[f.off:])
		if f.node != nil && f.node.ReadErrAt >= 0 && f.off+n > f.node.ReadErrAt {
			n = f.node.ReadErrAt - f.off
		}
		if f.node != nil && f.node.ShortRead > 0 && n > f.node.ShortRead {
			n = f.node.ShortRead
			W.CountFault("fs.shortread")
		}
		f.off += n
		return n, nil
	}
	return 0, os.ErrInvalid
}

func (f *File) writeRaw(p []byte) (int, error) { return f.Write(p) }

func (f *File) Write(p []byte) (int, error) {
	if f == nil {
		return 0, os.ErrInvalid
	}
	f.mu.Lock()
	closed := f.closed
	f.mu.Unlock()
	if closed {
		return 0, &fs.PathError{Op: "write", Path: f.name, Err: ErrClosed}
	}
	if f.Tap != nil {
		f.Tap(p)
	}
	switch f.kind {
	case fNull:
		f.owner.gate()
		return len(p), nil
	case fSink:
		f.owner.gate()
		t := f
		if f.sinkOf != nil {
			t = f.sinkOf
		}
		t.mu.Lock()
		if len(t.data) < 1<<20 {
			t.data = append(t.data, p...)
		}
		t.mu.Unlock()
		return len(p), nil
	case fPipeW:
		var lat time.Duration
		if W.FaultOn("pipe.latency") {
			lat = W.Delay("plat/"+f.sh.buf.name, "mid", 100)
			if lat > 0 {
				W.CountFault("pipe.latency")
			}
		}
		if hook := W.OnPipeWrite; hook != nil {
			hook(f.sh.buf.name, f.owner, p)
		}
		n, err := f.sh.buf.write(p, nil, f.owner, lat, &fs.PathError{Op: "write", Path: f.name, Err: ErrClosed})
		if err == EPIPE {
			err = &fs.PathError{Op: "write", Path: f.name, Err: EPIPE}
		}
		W.Ev(f.owner, "pwrite", f.sh.buf.name, fmt.Sprintf("%d %08x", n, fnv32(p[:n])))
		return n, err
	case fReg:
		f.owner.gate()
		f.mu.Lock()
		f.data = append(f.data, p...)
		if f.node != nil {
			f.node.Data = f.data
		}
		f.mu.Unlock()
		return len(p), nil
	}
	return 0, os.ErrInvalid
}

func (f *File) WriteString(s string) (int, error) { return f.Write([]byte(s)) }

func (f *File) Sync() error { return nil }

func (f *File) Fd() uintptr { return uintptr(f.id) }

func (f *File) Close() error {
	if f == nil {
		return os.ErrInvalid
	}
	f.mu.Lock()
	if f.closed {
		f.mu.Unlock()
		return &fs.PathError{Op: "close", Path: f.name, Err: ErrClosed}
	}
	f.mu.Unlock()
	f.owner.gate()
	f.kclose(false)
	return nil
}

func (f *File) kclose(byExit bool) {
	f.mu.Lock()
	if f.closed {
		f.mu.Unlock()
		return
	}
	f.closed = true
	f.mu.Unlock()
	if !byExit && f.owner != nil {
		f.owner.delFd(f)
	}
	if f.sh != nil {
		f.sh.mu.Lock()
		switch f.kind {
		case fPipeW:
			f.sh.writers--
			if f.sh.writers == 0 {
				f.sh.buf.closeWrite()
			}
		case fPipeR:
			f.sh.readers--
			if f.sh.readers == 0 {
				f.sh.buf.closeRead()
			}
		}
		f.sh.mu.Unlock()
	}
}

// Collected returns what was written to a sink file.
func (f *File) Collected() []byte {
	t := f
	if f.sinkOf != nil {
		t = f.sinkOf
	}
	t.mu.Lock()
	defer t.mu.Unlock()
	return append([]byte(nil), t.data...)
}

func (f *File) Stat() (os.FileInfo, error) {
	fi := &fileInfo{name: f.name, size: int64(len(f.data)), mode: 0o600, node: f.node}
	if f.node != nil {
		fi.size, fi.mtime, fi.mode = int64(len(f.node.Data)), f.node.MTime, f.node.Mode
	}
	return fi, nil
}

func (f *File) Chmod(mode os.FileMode) error { return nil }

func fnv32(p []byte) uint32 {
	h := uint32(2166136261)
	for _, c := range p {
		h ^= uint32(c)
		h *= 16777619
	}
	return h
}

// PipeBufferName / stats for oracles.
func (f *File) PipePending() int {
	if f.sh == nil {
		return 0
	}
	return f.sh.buf.pending()
}
