package k

import (
	"fmt"
	"io/fs"
	"os"
	"path"
	"sort"
	"strings"
	"time"
)

type NodeKind int

const (
	KFile NodeKind = iota
	KDir
	KSocket
	KSymlink
)

type Node struct {
	Kind      NodeKind
	Data      []byte
	Mode      os.FileMode
	Creator   string // process name
	Gid       int
	ReadErrAt int // >=0: EIO when a read reaches this offset
	ShortRead int // >0: reads return at most this many bytes
	MTime     time.Time
	Target    string // KSymlink
}

//go:norace
func (w *World) put(p string, n *Node) {
	if n.ReadErrAt == 0 {
		n.ReadErrAt = -1
	}
	w.fs[p] = n
}

type fileInfo struct {
	name  string
	size  int64
	mode  os.FileMode
	node  *Node
	mtime time.Time
}

// SameFile reports whether two FileInfos of the simulated file system
// describe the same file (same inode).
func SameFile(a, b os.FileInfo) bool {
	x, ok1 := a.(*fileInfo)
	y, ok2 := b.(*fileInfo)
	return ok1 && ok2 && x.node != nil && x.node == y.node
}

func (fi *fileInfo) Name() string       { return fi.name }
func (fi *fileInfo) Size() int64        { return fi.size }
func (fi *fileInfo) Mode() os.FileMode  { return fi.mode }
func (fi *fileInfo) ModTime() time.Time { return fi.mtime }
func (fi *fileInfo) IsDir() bool        { return fi.mode.IsDir() }
func (fi *fileInfo) Sys() any           { return nil }

// Mount maps a path prefix seen by a process to a global path prefix.
type Mount struct{ From, To string }

// rp resolves a path as seen by the calling process to the global name.
//
//go:norace
func (w *World) rp(p string) string {
	cur := Cur()
	cwd := "/"
	if cur != nil && cur.Cwd != "" {
		cwd = cur.Cwd
	}
	p = w.Phys(cwd, p)
	if cur == nil || len(cur.Mounts) == 0 {
		return p
	}
	return cur.Resolve(p)
}

// Symlink creates a symbolic link (harness use).
//
//go:norace
func (w *World) Symlink(target, link string) {
	w.mu.Lock()
	w.fs[clean(link)] = &Node{Kind: KSymlink, Target: target, Mode: os.ModeSymlink | 0o777, ReadErrAt: -1, Creator: CurName()}
	w.nSymlinks++
	w.mu.Unlock()
}

// Phys resolves a path the way the kernel does: relative to cwd, component by
// component, following symbolic links, ".." meaning the parent of the directory
// actually reached (NOT lexical cleaning: "a/../b" with a symlink "a" is not "b").
//
//go:norace
func (w *World) Phys(cwd, p string) string {
	if p == "" {
		return "."
	}
	if !strings.HasPrefix(p, "/") {
		p = cwd + "/" + p
	}
	w.mu.Lock()
	n := w.nSymlinks
	w.mu.Unlock()
	if n == 0 {
		return clean(p)
	}
	w.mu.Lock()
	defer w.mu.Unlock()
	return w.physLocked(p, 0)
}

func (w *World) physLocked(p string, depth int) string {
	cur := ""
	for _, comp := range strings.Split(p, "/") {
		switch comp {
		case "", ".":
			continue
		case "..":
			if i := strings.LastIndex(cur, "/"); i >= 0 {
				cur = cur[:i]
			}
			continue
		}
		next := cur + "/" + comp
		if nd := w.fs[next]; nd != nil && nd.Kind == KSymlink && depth < 16 {
			t := nd.Target
			if !strings.HasPrefix(t, "/") {
				t = cur + "/" + t
			}
			next = w.physLocked(t, depth+1)
		}
		cur = next
	}
	if cur == "" {
		return "/"
	}
	return cur
}

// Resolve maps an in-namespace path of process p to the global path.
func (p *Proc) Resolve(name string) string {
	name = clean(name)
	best := -1
	for i, m := range p.Mounts {
		if name == m.From || strings.HasPrefix(name, m.From+"/") {
			if best < 0 || len(m.From) > len(p.Mounts[best].From) {
				best = i
			}
		}
	}
	if best >= 0 {
		return clean(p.Mounts[best].To + strings.TrimPrefix(name, p.Mounts[best].From))
	}
	if p.Chroot != "" {
		return clean(p.Chroot + "/" + name)
	}
	return name
}

func clean(p string) string {
	if p == "" {
		return "."
	}
	return path.Clean(p)
}

// WriteFile installs a plain file (harness use).
//
//go:norace
func (w *World) WriteFile(p string, data []byte, mode os.FileMode) *Node {
	w.mu.Lock()
	defer w.mu.Unlock()
	n := &Node{Kind: KFile, Data: data, Mode: mode, ReadErrAt: -1}
	w.fs[clean(p)] = n
	return n
}

// MkdirAs creates a directory attributed to creator (harness scaffolding).
//
//go:norace
func (w *World) MkdirAs(p, creator string) {
	w.mu.Lock()
	defer w.mu.Unlock()
	w.fs[clean(p)] = &Node{Kind: KDir, Mode: os.ModeDir | 0o755, ReadErrAt: -1, Creator: creator}
}

//go:norace
func (w *World) Mkdir(p string) {
	w.mu.Lock()
	defer w.mu.Unlock()
	w.fs[clean(p)] = &Node{Kind: KDir, Mode: os.ModeDir | 0o755, ReadErrAt: -1, Creator: CurName()}
}

//go:norace
func (w *World) Stat(p string) (os.FileInfo, error) {
	p = w.rp(p)
	w.mu.Lock()
	defer w.mu.Unlock()
	n := w.fs[p]
	if n == nil {
		return nil, &fs.PathError{Op: "stat", Path: p, Err: ENOENT}
	}
	m := n.Mode
	switch n.Kind {
	case KDir:
		m |= os.ModeDir
	case KSocket:
		m |= os.ModeSocket
	}
	return &fileInfo{name: path.Base(p), size: int64(len(n.Data)), mode: m, node: n, mtime: n.MTime}, nil
}

//go:norace
func (w *World) Exists(p string) bool {
	w.mu.Lock()
	defer w.mu.Unlock()
	return w.fs[clean(p)] != nil
}

//go:norace
func (w *World) NodeAt(p string) *Node {
	w.mu.Lock()
	defer w.mu.Unlock()
	return w.fs[clean(p)]
}

//go:norace
func (w *World) Open(p string) (*File, error) {
	p = w.rp(p)
	cur := Cur()
	cur.gate()
	w.mu.Lock()
	n := w.fs[p]
	id := newKid()
	w.mu.Unlock()
	if n == nil {
		return nil, &fs.PathError{Op: "open", Path: p, Err: ENOENT}
	}
	if n.Kind == KDir {
		return &File{id: id, name: p, kind: fReg, owner: cur, path: p, node: n}, nil
	}
	f := &File{id: id, name: p, kind: fReg, owner: cur, data: n.Data, node: n, path: p}
	if cur != nil {
		cur.addFd(f)
	}
	return f, nil
}

//go:norace
func (w *World) tempName(dir, pattern string) (string, error) {
	if dir == "" {
		dir = "/tmp"
	}
	dir = clean(dir)
	gdir := w.rp(dir)
	prefix, suffix := pattern, ""
	if i := strings.LastIndex(pattern, "*"); i >= 0 {
		prefix, suffix = pattern[:i], pattern[i+1:]
	}
	w.mu.Lock()
	defer w.mu.Unlock()
	d := w.fs[gdir]
	if d == nil {
		return "", &fs.PathError{Op: "mkdirtemp", Path: dir, Err: ENOENT}
	}
	if d.Kind != KDir {
		return "", &fs.PathError{Op: "mkdirtemp", Path: dir, Err: ENOTDIR}
	}
	for {
		w.tmpN++
		base := fmt.Sprintf("%s%d%s", prefix, 100000000+H(w.Spec.Seed^0x7e, "tmp", w.tmpN)%900000000, suffix)
		if w.fs[path.Join(gdir, base)] == nil {
			return path.Join(dir, base), nil
		}
	}
}

//go:norace
func (w *World) MkdirTemp(dir, pattern string) (string, error) {
	cur := Cur()
	cur.gate()
	if w.FaultOn("fs.enospc") && w.Flip("enospc/mkdirtemp", 200) {
		w.CountFault("fs.enospc")
		return "", &fs.PathError{Op: "mkdir", Path: dir, Err: ENOSPC}
	}
	name, err := w.tempName(dir, pattern)
	if err != nil {
		return "", err
	}
	g := w.rp(name)
	w.mu.Lock()
	w.fs[g] = &Node{Kind: KDir, Mode: 0o700, Creator: CurName(), ReadErrAt: -1}
	w.mu.Unlock()
	w.Ev(cur, "mkdir", g, "")
	return name, nil
}

//go:norace
func (w *World) CreateTemp(dir, pattern string) (*File, error) {
	cur := Cur()
	cur.gate()
	if w.FaultOn("fs.enospc") && w.Flip("enospc/createtemp", 200) {
		w.CountFault("fs.enospc")
		return nil, &fs.PathError{Op: "open", Path: dir, Err: ENOSPC}
	}
	name, err := w.tempName(dir, pattern)
	if err != nil {
		return nil, err
	}
	n := &Node{Kind: KFile, Mode: 0o600, Creator: CurName(), ReadErrAt: -1}
	g := w.rp(name)
	w.mu.Lock()
	w.fs[g] = n
	id := newKid()
	w.mu.Unlock()
	w.Ev(cur, "create", g, "")
	f := &File{id: id, name: name, kind: fReg, owner: cur, node: n, path: name}
	if cur != nil {
		cur.addFd(f)
	}
	return f, nil
}

//go:norace
func (w *World) children(p string) []string {
	var out []string
	pre := p + "/"
	if p == "/" {
		pre = "/"
	}
	for k := range w.fs {
		if k != p && strings.HasPrefix(k, pre) {
			out = append(out, k)
		}
	}
	sort.Strings(out)
	return out
}

//go:norace
func (w *World) Remove(p string) error {
	p = w.rp(p)
	cur := Cur()
	cur.gate()
	w.mu.Lock()
	n := w.fs[p]
	if n == nil {
		w.mu.Unlock()
		return &fs.PathError{Op: "remove", Path: p, Err: ENOENT}
	}
	if n.Kind == KDir && len(w.children(p)) > 0 {
		w.mu.Unlock()
		return &fs.PathError{Op: "remove", Path: p, Err: ENOTEMPTY}
	}
	delete(w.fs, p)
	w.mu.Unlock()
	w.Ev(cur, "unlink", p, "")
	return nil
}

//go:norace
func (w *World) RemoveAll(p string) error {
	p = w.rp(p)
	if p == "." || p == "/" {
		return nil
	}
	cur := Cur()
	cur.gate()
	w.mu.Lock()
	n := w.fs[p]
	if n != nil {
		for _, c := range w.children(p) {
			delete(w.fs, c)
		}
		delete(w.fs, p)
	}
	w.mu.Unlock()
	if n != nil {
		w.Ev(cur, "rmall", p, "")
	}
	return nil
}

//go:norace
func (w *World) Chown(p string, uid, gid int) error {
	p = w.rp(p)
	w.mu.Lock()
	defer w.mu.Unlock()
	n := w.fs[p]
	if n == nil {
		return &fs.PathError{Op: "chown", Path: p, Err: ENOENT}
	}
	n.Gid = gid
	return nil
}

//go:norace
func (w *World) Chmod(p string, mode os.FileMode) error {
	p = w.rp(p)
	w.mu.Lock()
	defer w.mu.Unlock()
	n := w.fs[p]
	if n == nil {
		return &fs.PathError{Op: "chmod", Path: p, Err: ENOENT}
	}
	n.Mode = mode
	return nil
}

// Snapshot lists all paths (for leak oracles).
//
//go:norace
func (w *World) Paths() []string {
	w.mu.Lock()
	defer w.mu.Unlock()
	var out []string
	for k := range w.fs {
		out = append(out, k)
	}
	sort.Strings(out)
	return out
}

//go:norace
func (w *World) PathsCreatedBy(names ...string) []string {
	w.mu.Lock()
	defer w.mu.Unlock()
	var out []string
	for k, n := range w.fs {
		for _, nm := range names {
			if n.Creator == nm {
				out = append(out, k)
			}
		}
	}
	sort.Strings(out)
	return out
}

// Rename moves a file-system node (harness use: a socket file that is out of
// reach for a while). A Unix listener stays bound to its original path.
//
//go:norace
func (w *World) Rename(from, to string) error {
	from, to = w.rp(from), w.rp(to)
	w.mu.Lock()
	n := w.fs[from]
	if n == nil {
		w.mu.Unlock()
		return &fs.PathError{Op: "rename", Path: from, Err: ENOENT}
	}
	delete(w.fs, from)
	w.fs[to] = n
	w.mu.Unlock()
	w.Ev(Cur(), "rename", from, to)
	return nil
}
