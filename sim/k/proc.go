package k

import (
	"fmt"
	"os"
	"regexp"
	"runtime"
	"runtime/debug"
	"sort"
	"strings"
	"sync/atomic"
	"syscall"
	"time"
	"unsafe"
)

func gosched() { runtime.Gosched() }

//go:linkname runtime_setProfLabel runtime/pprof.runtime_setProfLabel
func runtime_setProfLabel(labels unsafe.Pointer)

//go:linkname runtime_getProfLabel runtime/pprof.runtime_getProfLabel
func runtime_getProfLabel() unsafe.Pointer

//go:linkname rtDraws runtime.verifDraws
func rtDraws() uint64

// label mirrors runtime/pprof.labelMap (= internal/runtime/pprof/label.Set) so
// that goroutine profiles and tracebacks (GODEBUG=tracebacklabels=1) print the
// simulated process a goroutine belongs to.
type label struct{ Key, Value string }
type labelSet struct{ List []label }

type ProcState int

const (
	Running ProcState = iota
	Stopped
	Zombie // exited, not yet waited for
	Reaped
)

func (s ProcState) String() string {
	return [...]string{"running", "stopped", "zombie", "reaped"}[s]
}

type closer interface {
	kclose(byExit bool)
	kid() int
}

func sortClosers(cs []closer) {
	sort.Slice(cs, func(i, j int) bool { return cs[i].kid() < cs[j].kid() })
}

type Proc struct {
	w      *World
	Pid    int
	Name   string
	Path   string
	Args   []string
	Env    []string
	Parent *Proc
	labels *labelSet
	Cwd    string // working directory ("" = "/")
	DiedOf string // why the process ended (first cause)

	state    ProcState
	ExitCode int
	Signaled bool
	exitCh   chan struct{} // closed when the process has exited
	contCh   chan struct{} // closed when continued (replaced on stop)
	sigCh    map[int][]chan<- Signal
	fds      map[closer]struct{}

	Stdin, Stdout, Stderr *File // current values of os.Std* in that process
	Fd0, Fd1, Fd2         *File // the descriptors it was started with
	Args0                 []string
	GOOS                  string
	NetNS                 string // network namespace ("" = the host's)

	SpawnedAt time.Duration
	ExitedAt  time.Duration
	GotKill   bool // SIGKILL was delivered while still running
	waited    bool
	Slow      bool
	Mounts    []Mount
	Chroot    string
}

type Signal interface {
	String() string
	Signal()
}

var procIndex atomic.Pointer[map[unsafe.Pointer]*Proc]

// Cur returns the simulated process the calling goroutine belongs to.
func Cur() *Proc {
	ptr := runtime_getProfLabel()
	if ptr == nil {
		return nil
	}
	m := procIndex.Load()
	if m == nil {
		return nil
	}
	return (*m)[ptr]
}

// CurName is "host", "plugin", ... or "-" for goroutines outside any process.
func CurName() string {
	if p := Cur(); p != nil {
		return p.Name
	}
	return "-"
}

//go:norace
func (w *World) newProc(name, path string, args, env []string, parent *Proc) *Proc {
	w.mu.Lock()
	defer w.mu.Unlock()
	w.nextPid++
	if _, dup := w.byName[name]; dup {
		name = fmt.Sprintf("%s.%d", name, w.nextPid)
	}
	p := &Proc{w: w, Pid: w.nextPid, Name: name, Path: path, Args: args, Env: env, Parent: parent,
		exitCh: make(chan struct{}), contCh: make(chan struct{}), sigCh: map[int][]chan<- Signal{},
		fds: map[closer]struct{}{}, GOOS: "linux", SpawnedAt: w.Now()}
	close(p.contCh)
	p.labels = &labelSet{List: []label{{"simproc", name}}}
	w.procs[p.Pid] = p
	w.byName[name] = p
	old := procIndex.Load()
	nm := map[unsafe.Pointer]*Proc{}
	if old != nil {
		for k, v := range *old {
			nm[k] = v
		}
	}
	nm[unsafe.Pointer(p.labels)] = p
	procIndex.Store(&nm)
	return p
}

// Adopt makes the calling goroutine (and every goroutine it starts from now
// on) part of process p.
func (p *Proc) Adopt() { runtime_setProfLabel(unsafe.Pointer(p.labels)) }

// NewHost creates the host process and adopts the calling goroutine into it.
func (w *World) NewHost(name string, env []string) *Proc {
	p := w.newProc(name, "/bin/"+name, []string{name}, env, nil)
	p.Fd0 = newNullFile(p, "stdin")
	p.Fd1 = newSinkFile(p, "stdout")
	p.Fd2 = newSinkFile(p, "stderr")
	p.Stdin, p.Stdout, p.Stderr = p.Fd0, p.Fd1, p.Fd2
	p.Adopt()
	w.Ev(p, "spawn", name, "")
	return p
}

//go:norace
func (w *World) ProcByName(name string) *Proc {
	w.mu.Lock()
	defer w.mu.Unlock()
	return w.byName[name]
}

//go:norace
func (w *World) ProcByPid(pid int) *Proc {
	w.mu.Lock()
	defer w.mu.Unlock()
	return w.procs[pid]
}

// Procs returns all processes ever created, by pid.
//
//go:norace
func (w *World) Procs() []*Proc {
	w.mu.Lock()
	defer w.mu.Unlock()
	var out []*Proc
	for pid := 1000; pid <= w.nextPid; pid++ {
		if p := w.procs[pid]; p != nil {
			out = append(out, p)
		}
	}
	return out
}

// RegisterProgram installs an executable at path whose code is main.
func (w *World) RegisterProgram(path string, contents []byte, main func()) {
	w.mu.Lock()
	defer w.mu.Unlock()
	w.fs[path] = &Node{Kind: KFile, Data: contents, Mode: 0o755, ReadErrAt: -1}
	w.programs[path] = main
}

// SpawnOpts are the namespace knobs a custom runner (container-style) sets.
type SpawnOpts struct {
	Mounts []Mount
	Chroot string
	GOOS   string
	NetNS  string
}

// Spawn starts program path as a new process: a goroutine tree labelled with
// the process identity, running the registered main.
//
//go:norace
func (w *World) Spawn(name, path string, args, env []string, stdin, stdout, stderr *File, opts *SpawnOpts) (*Proc, error) {
	w.mu.Lock()
	main := w.programs[path]
	node := w.fs[path]
	w.mu.Unlock()
	if node == nil {
		return nil, &PathError{Op: "fork/exec", Path: path, Err: ENOENT}
	}
	if main == nil || node.Mode&0o111 == 0 {
		return nil, &PathError{Op: "fork/exec", Path: path, Err: EACCES}
	}
	parent := Cur()
	if name == "" {
		name = "plugin"
	}
	p := w.newProc(name, path, args, env, parent)
	if opts != nil {
		p.Mounts, p.Chroot = opts.Mounts, opts.Chroot
		if opts.GOOS != "" {
			p.GOOS = opts.GOOS
		}
		p.NetNS = opts.NetNS
	}
	if stdin == nil {
		stdin = newNullFile(p, "stdin")
	}
	if stdout == nil {
		stdout = newSinkFile(p, "stdout")
	}
	if stderr == nil {
		stderr = newSinkFile(p, "stderr")
	}
	// the child gets its own references to the descriptors
	p.Fd0, p.Fd1, p.Fd2 = stdin.dupFor(p), stdout.dupFor(p), stderr.dupFor(p)
	p.Stdin, p.Stdout, p.Stderr = p.Fd0, p.Fd1, p.Fd2
	w.Ev(parent, "spawn", p.Name, path)
	go func() {
		p.Adopt()
		defer p.trap()
		p.gate()
		main()
		p.Exit(0)
	}()
	return p, nil
}

// trap turns a panic on a goroutine of a simulated non-host process into a
// crash of that process; on a host goroutine it ends the run as a host panic.
func (p *Proc) trap() {
	r := recover()
	if r == nil {
		return
	}
	if _, ok := r.(exitPanic); ok {
		select {}
	}
	stack := string(debug.Stack())
	if p == nil || p.Parent == nil {
		msg := fmt.Sprintf("panic: %v\n%s", r, stack)
		W.mu.Lock()
		W.HostPanic = msg
		f := W.Fatal
		W.mu.Unlock()
		if f != nil {
			f(msg)
		}
		select {}
	}
	if p.Fd2 != nil {
		// (pointer values differ from process to process - the heap base is
		// randomised - and must not reach the byte stream the run observes)
		p.Fd2.writeRaw([]byte(fmt.Sprintf("panic: %v\n\ngoroutine 1 [running]:\n%s\n", hexRE.ReplaceAllString(fmt.Sprint(r), "0x?"), hexRE.ReplaceAllString(firstLines(stack, 12), "0x?"))))
	}
	p.Crash(2, fmt.Sprintf("panic: %v", r))
	select {}
}

var hexRE = regexp.MustCompile(`0x[0-9a-f]+`)

type exitPanic struct{}

func firstLines(s string, n int) string {
	ls := strings.Split(s, "\n")
	if len(ls) > n {
		ls = ls[:n]
	}
	return strings.Join(ls, "\n")
}

// Trap is woven around every `go` statement of go-plugin.
func Trap(f func()) {
	p := Cur()
	defer p.trap()
	f()
}

// gate parks the calling goroutine while its process is stopped and for ever
// once it is dead.
//
//go:norace
func (p *Proc) gate() {
	if p == nil {
		return
	}
	for {
		p.w.mu.Lock()
		st := p.state
		ch := p.contCh
		p.w.mu.Unlock()
		switch st {
		case Running:
			return
		case Stopped:
			<-ch
		default:
			select {}
		}
	}
}

// Gate is gate for shims.
func (p *Proc) Gate() { p.gate() }

//go:norace
func (p *Proc) State() ProcState {
	p.w.mu.Lock()
	defer p.w.mu.Unlock()
	return p.state
}

func (p *Proc) Alive() bool {
	s := p.State()
	return s == Running || s == Stopped
}

func (p *Proc) ExitChan() <-chan struct{} { return p.exitCh }

//go:norace
func (p *Proc) addFd(c closer) {
	p.w.mu.Lock()
	if p.state == Running || p.state == Stopped {
		p.fds[c] = struct{}{}
	}
	p.w.mu.Unlock()
}

//go:norace
func (p *Proc) delFd(c closer) {
	p.w.mu.Lock()
	delete(p.fds, c)
	p.w.mu.Unlock()
}

// die marks the process dead and closes everything it owned, the way the
// kernel does: peers see EOF/reset, socket files stay.
//
//go:norace
func (p *Proc) die(code int, signaled bool, why string) bool {
	if p.DiedOf == "" {
		p.DiedOf = why
	}
	w := p.w
	w.mu.Lock()
	if p.state == Zombie || p.state == Reaped {
		w.mu.Unlock()
		return false
	}
	wasStopped := p.state == Stopped
	p.state = Zombie
	p.ExitCode = code
	p.Signaled = signaled
	p.ExitedAt = w.Now()
	fds := make([]closer, 0, len(p.fds))
	for c := range p.fds {
		fds = append(fds, c)
	}
	p.fds = map[closer]struct{}{}
	orphanReap := p.Parent == nil || p.Parent.state == Zombie || p.Parent.state == Reaped
	if orphanReap {
		p.state = Reaped
	}
	// children of a dead process are re-parented to init: they get reaped automatically
	for _, c := range w.procs {
		if c.Parent == p && c.state == Zombie {
			c.state = Reaped
		}
	}
	w.mu.Unlock()
	sortClosers(fds)
	for _, c := range fds {
		c.kclose(true)
	}
	w.Ev(p, "exit", p.Name, fmt.Sprintf("code=%d %s", code, why))
	close(p.exitCh)
	if wasStopped {
		// wake goroutines parked in gate so that they park for ever instead
		w.mu.Lock()
		select {
		case <-p.contCh:
		default:
			close(p.contCh)
		}
		w.mu.Unlock()
	}
	return true
}

// Exit is os.Exit for the calling process: it never returns.
func (p *Proc) Exit(code int) {
	if p.Parent == nil {
		// the host exiting ends the run
		W.mu.Lock()
		f := W.Fatal
		W.mu.Unlock()
		if f != nil {
			f(fmt.Sprintf("host called os.Exit(%d)", code))
		}
		select {}
	}
	p.die(code, false, "exit")
	select {}
}

// Crash kills the process from outside (SIGKILL, trigger, panic).
func (p *Proc) Crash(code int, why string) { p.die(code, true, why) }

// Kill delivers SIGKILL.
//
//go:norace
func (p *Proc) Kill() error {
	p.w.mu.Lock()
	st := p.state
	if st == Running || st == Stopped {
		p.GotKill = true
	}
	p.w.mu.Unlock()
	if st == Reaped || st == Zombie {
		if st == Zombie {
			return nil // signalling a zombie succeeds and does nothing
		}
		return ErrProcessDone
	}
	p.w.Ev(Cur(), "sigkill", p.Name, "")
	p.die(137, true, "SIGKILL")
	return nil
}

// Stop is SIGSTOP: every later action of the process parks until Cont.
func (p *Proc) Stop() {
	p.w.mu.Lock()
	if p.state == Running {
		p.state = Stopped
		p.contCh = make(chan struct{})
	}
	p.w.mu.Unlock()
	p.w.Ev(nil, "sigstop", p.Name, "")
}

func (p *Proc) Cont() {
	p.w.mu.Lock()
	if p.state == Stopped {
		p.state = Running
		close(p.contCh)
	}
	p.w.mu.Unlock()
	p.w.Ev(nil, "sigcont", p.Name, "")
}

// SignalNum delivers a catchable signal: to registered channels, else default
// action (terminate) for SIGINT/SIGTERM; signal 0 only probes.
//
//go:norace
func (p *Proc) SignalNum(sig int, s Signal) error {
	p.w.mu.Lock()
	st := p.state
	chans := append([]chan<- Signal(nil), p.sigCh[sig]...)
	p.w.mu.Unlock()
	if st == Reaped {
		return ErrProcessDone
	}
	if sig == 0 || st == Zombie {
		return nil
	}
	if sig == 9 {
		return p.Kill()
	}
	p.w.Ev(Cur(), "signal", p.Name, fmt.Sprint(sig))
	if len(chans) > 0 {
		for _, c := range chans {
			select {
			case c <- s:
			default:
			}
		}
		return nil
	}
	p.die(128+sig, true, fmt.Sprintf("signal %d", sig))
	return nil
}

func (p *Proc) NotifySignal(sig int, c chan<- Signal) {
	p.w.mu.Lock()
	p.sigCh[sig] = append(p.sigCh[sig], c)
	p.w.mu.Unlock()
}

// Wait blocks until the process has exited and reaps it. Only meaningful for
// the parent.
//
//go:norace
func (p *Proc) Wait() (code int, signaled bool, err error) {
	<-p.exitCh
	p.w.mu.Lock()
	if p.state == Reaped && p.waited {
		p.w.mu.Unlock()
		return 0, false, ECHILD
	}
	p.state = Reaped
	p.waited = true
	code, signaled = p.ExitCode, p.Signaled
	p.w.mu.Unlock()
	p.w.Ev(Cur(), "reap", p.Name, fmt.Sprintf("code=%d", code))
	return
}

// Getenv follows the C library: first match wins (os/exec de-duplicates to
// the last assignment before exec, see simexec).
//
//go:norace
func (p *Proc) Getenv(key string) (string, bool) {
	p.w.mu.Lock()
	defer p.w.mu.Unlock()
	for _, kv := range p.Env {
		if k, v, ok := strings.Cut(kv, "="); ok && k == key {
			return v, true
		}
	}
	return "", false
}

func (p *Proc) Setenv(key, val string) {
	p.w.mu.Lock()
	defer p.w.mu.Unlock()
	for i, kv := range p.Env {
		if k, _, ok := strings.Cut(kv, "="); ok && k == key {
			p.Env[i] = key + "=" + val
			return
		}
	}
	p.Env = append(p.Env, key+"="+val)
}

func (p *Proc) Unsetenv(key string) {
	p.w.mu.Lock()
	defer p.w.mu.Unlock()
	out := p.Env[:0:0]
	for _, kv := range p.Env {
		if k, _, ok := strings.Cut(kv, "="); ok && k == key {
			continue
		}
		out = append(out, kv)
	}
	p.Env = out
}

//go:norace
func (p *Proc) Environ() []string {
	p.w.mu.Lock()
	defer p.w.mu.Unlock()
	return append([]string(nil), p.Env...)
}

var (
	ENOENT         = syscall.ENOENT
	EACCES         = syscall.EACCES
	ECHILD         = syscall.ECHILD
	ECONNREFUSED   = syscall.ECONNREFUSED
	ECONNRESET     = syscall.ECONNRESET
	EPIPE          = syscall.EPIPE
	EADDRINUSE     = syscall.EADDRINUSE
	EEXIST         = syscall.EEXIST
	ENOTDIR        = syscall.ENOTDIR
	ENOTEMPTY      = syscall.ENOTEMPTY
	EIO            = syscall.EIO
	ENOSPC         = syscall.ENOSPC
	EINVAL         = syscall.EINVAL
	EMFILE         = syscall.EMFILE
	ErrProcessDone = os.ErrProcessDone
)

type PathError = os.PathError

// ReusePid makes pid refer to process np from now on (the old process must be
// gone): the kernel handed the number to an unrelated program.
func (w *World) ReusePid(pid int, np *Proc) {
	w.mu.Lock()
	defer w.mu.Unlock()
	w.procs[pid] = np
}
