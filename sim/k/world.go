// Package k is the simulated kernel: one World per OS process (one simulated
// run per process). It owns every source of nondeterminism the system under
// test can see except the clock (testing/synctest) and the Go scheduler's own
// draws (runtime overlay): processes, pipes, sockets, files, environment,
// signals, and the choice function from which all faults, delays and generated
// operations are derived.
package k

import (
	"encoding/binary"
	"fmt"
	"hash/fnv"
	"sort"
	"strings"
	"sync"
	"time"
)

// Trigger is a deterministic fault placed at a named point: the occ-th time
// process Proc passes schedule point / kernel event Key, Act happens.
type Trigger struct {
	On   string `json:"on"`   // "site" | "event"
	Proc string `json:"proc"` // process name ("" = any)
	Key  string `json:"key"`  // site name or event key (prefix match if it ends in '*')
	Occ  int    `json:"occ"`  // 1-based occurrence
	Act  string `json:"act"`  // kill | exit:<code> | stop | cont:<proc> | panic | sleep:<ns> | killproc:<name> | killprocsleep:<name>:<ns> | callsleep:<callback>:<ns> | stopproc:<name>
	hits int
	done bool
}

// Spec is one simulated run, completely: a pure function of it and the code.
type Spec struct {
	Prop      string            `json:"prop"`
	Case      string            `json:"case,omitempty"` // human-readable case label
	Seed      uint64            `json:"seed"`
	Explicit  bool              `json:"explicit,omitempty"` // true: only Overrides decide, every other choice is 0
	Overrides map[string]int64  `json:"overrides,omitempty"`
	Params    map[string]string `json:"params,omitempty"`
	Triggers  []*Trigger        `json:"triggers,omitempty"`
	Profile   bool              `json:"profile,omitempty"` // record (proc,site) passes and kernel events
	// Yield law (seeded mode): permille of sites that are hot, and the delay class.
	HotPermille int    `json:"hot,omitempty"`
	Focus       string `json:"focus,omitempty"` // comma separated substrings of sites that are always hot
	DelayClass  string `json:"delay,omitempty"` // "" none | "tiny" (<=1ms) | "mid" (<=100ms) | "long" (<=3s) | "big" (<=7s)
	Faults      string `json:"faults,omitempty"`
	// Wake-up law: permille of runtime wake-ups after which the woken goroutine
	// queues behind the runnable ones instead of running next.
	Wake int `json:"wake,omitempty"`
}

func (s *Spec) P(key, def string) string {
	if v, ok := s.Params[key]; ok {
		return v
	}
	return def
}

func (s *Spec) PI(key string, def int) int {
	if v, ok := s.Params[key]; ok {
		var n int
		fmt.Sscanf(v, "%d", &n)
		return n
	}
	return def
}

// NoSync switches the kernel's global lock off (race-detector runs): with one
// P and no preemption its critical sections can never interleave, and a real
// mutex taken at every schedule point would order every pair of goroutines in
// the detector's happens-before relation and hide the races we are looking for.
var NoSync bool

type wlock struct{ m sync.Mutex }

func (l *wlock) Lock() {
	if !NoSync {
		l.m.Lock()
	}
}

func (l *wlock) Unlock() {
	if !NoSync {
		l.m.Unlock()
	}
}

// smap is a small string-keyed table used instead of built-in maps for the
// simulator's own bookkeeping: map operations are checked by the race detector
// inside the runtime even when the calling function is marked norace, and in
// race runs (NoSync) that would bury the reports about go-plugin under reports
// about the harness.
type smap struct {
	keys []string
	vals []int64
	used []bool
	n    int
}

//go:norace
func smapHash(s string) uint32 {
	h := uint32(2166136261)
	for i := 0; i < len(s); i++ {
		h ^= uint32(s[i])
		h *= 16777619
	}
	return h
}

//go:norace
func (m *smap) find(key string) (int, bool) {
	if len(m.keys) == 0 {
		return 0, false
	}
	mask := uint32(len(m.keys) - 1)
	for i := smapHash(key) & mask; ; i = (i + 1) & mask {
		if !m.used[i] {
			return int(i), false
		}
		if m.keys[i] == key {
			return int(i), true
		}
	}
}

//go:norace
func (m *smap) Get(key string) (int64, bool) {
	i, ok := m.find(key)
	if !ok {
		return 0, false
	}
	return m.vals[i], true
}

//go:norace
func (m *smap) grow() {
	old := *m
	size := 64
	if len(old.keys) > 0 {
		size = len(old.keys) * 2
	}
	m.keys, m.vals, m.used, m.n = make([]string, size), make([]int64, size), make([]bool, size), 0
	for i, u := range old.used {
		if u {
			m.Set(old.keys[i], old.vals[i])
		}
	}
}

//go:norace
func (m *smap) Set(key string, v int64) {
	if len(m.keys) == 0 || m.n*2 >= len(m.keys) {
		m.grow()
	}
	i, ok := m.find(key)
	if !ok {
		m.keys[i], m.used[i] = key, true
		m.n++
	}
	m.vals[i] = v
}

//go:norace
func (m *smap) Add(key string, d int64) int64 {
	v, _ := m.Get(key)
	m.Set(key, v+d)
	return v + d
}

// Map converts to a built-in map (end of run).
//
//go:norace
func (m *smap) Map() map[string]int {
	out := make(map[string]int, m.n)
	for i, u := range m.used {
		if u {
			out[m.keys[i]] = int(m.vals[i])
		}
	}
	return out
}

//go:norace
func (m *smap) Map64() map[string]int64 {
	out := make(map[string]int64, m.n)
	for i, u := range m.used {
		if u {
			out[m.keys[i]] = m.vals[i]
		}
	}
	return out
}

type World struct {
	mu   wlock
	Spec *Spec

	idx     smap // per-key draw counter
	choices smap // non-zero choices actually taken: "key#idx" -> value
	hot     smap
	focus   []string
	faultOn map[string]bool

	procs    map[int]*Proc
	byName   map[string]*Proc
	nextPid  int
	programs map[string]func()

	fs        map[string]*Node
	listeners map[string]*Listener
	nextConn  int
	nextPort  int
	tmpN      int
	busyPorts map[int]bool

	seq        uint64
	logHash    uint64
	Log        []string
	KeepLog    bool
	PortMaps   []PortMap
	DebugDraws bool
	DebugY     bool
	Events     []Event
	start      time.Time
	faults     smap
	probes     smap
	sitePass   smap     // "proc site" -> count (profile mode)
	evPass     smap     // "proc evkey" -> count
	PassSeq    []string // ordered distinct "proc|on|key" in first-pass order (profile mode)
	passSeen   smap
	Injected   time.Duration // completed stalls injected by the simulator (yields + latency); see InjectedTotal
	stalls     []stall       // stalls not yet folded into Injected

	Hooks []func(ev *Event) // oracles observing kernel events while the run proceeds
	// Callbacks are actions of the run that a trigger can invoke (act callsleep).
	Callbacks map[string]func()
	nSymlinks int
	// OnPipeWrite observes every write to a pipe before it is queued (raw
	// stdout/stderr taps); it runs on the writer's goroutine.
	OnPipeWrite func(pipe string, p *Proc, data []byte)
	// OnConnWrite observes every socket write (wire sniffer); it runs on the writer's goroutine.
	OnConnWrite func(e *Endpoint, data []byte)

	HostPanic string
	Fatal     func(msg string) // called on host panic
}

// Event is one kernel-level or harness-level happening.
type Event struct {
	Seq  uint64
	At   time.Duration
	Proc string
	Kind string // spawn exit kill stop cont listen unlisten accept dial dialfail close write read sig unlink mkdir ...
	Key  string // object (conn name, path, ...)
	Arg  string
}

var W *World

func Boot(spec *Spec) *World {
	w := &World{
		Spec:      spec,
		faultOn:   map[string]bool{},
		procs:     map[int]*Proc{},
		byName:    map[string]*Proc{},
		nextPid:   1000,
		programs:  map[string]func(){},
		fs:        map[string]*Node{},
		listeners: map[string]*Listener{},
		nextPort:  20000,
		start:     time.Now(),
		logHash:   14695981039346656037,
	}
	if spec.Overrides == nil {
		spec.Overrides = map[string]int64{}
	}
	if spec.Focus != "" {
		w.focus = strings.Split(spec.Focus, ",")
	}
	for _, f := range strings.Split(spec.Faults, ",") {
		if f != "" {
			w.faultOn[f] = true
		}
	}
	w.fs["/"] = &Node{Kind: KDir}
	w.fs["/tmp"] = &Node{Kind: KDir}
	W = w
	return w
}

// Now is the simulated time since boot.
func (w *World) Now() time.Duration { return time.Since(w.start) }

// ---- hashing ------------------------------------------------------------

func mix(x uint64) uint64 {
	x ^= x >> 30
	x *= 0xbf58476d1ce4e5b9
	x ^= x >> 27
	x *= 0x94d049bb133111eb
	x ^= x >> 31
	return x
}

func H(seed uint64, key string, idx int) uint64 {
	h := fnv.New64a()
	h.Write([]byte(key))
	return mix(mix(seed^0x9e3779b97f4a7c15) ^ mix(h.Sum64()) ^ mix(uint64(idx)*0x2545f4914f6cdd1d+1))
}

// ---- the choice function ---------------------------------------------------

// draw returns the override for the next occurrence of key (if any) and the
// seeded hash for it. It must be called with w.mu held.
//
//go:norace
func (w *World) draw(key string) (full string, u uint64, ov int64, has bool) {
	i64, _ := w.idx.Get(key)
	i := int(i64)
	w.idx.Set(key, i64+1)
	full = fmt.Sprintf("%s#%d", key, i)
	ov, has = w.Spec.Overrides[full]
	if !has && !w.Spec.Explicit {
		u = H(w.Spec.Seed, key, i)
	}
	return
}

//go:norace
func (w *World) record(full string, v int64) {
	if v != 0 {
		w.choices.Set(full, v)
	}
}

// Range draws a value in [0,n); 0 is the benign choice.
//
//go:norace
func (w *World) Range(key string, n int) int {
	if n <= 1 {
		return 0
	}
	w.mu.Lock()
	defer w.mu.Unlock()
	return w.rangeLocked(key, n)
}

//go:norace
func (w *World) rangeLocked(key string, n int) int {
	full, u, ov, has := w.draw(key)
	var v int64
	switch {
	case has:
		v = ov
		if v < 0 || v >= int64(n) {
			v = v % int64(n)
			if v < 0 {
				v = -v
			}
		}
	case w.Spec.Explicit:
		v = 0
	default:
		v = int64(u % uint64(n))
	}
	w.record(full, v)
	return int(v)
}

// Flip is true with probability permille/1000 (seeded mode), false by default.
//
//go:norace
func (w *World) Flip(key string, permille int) bool {
	w.mu.Lock()
	defer w.mu.Unlock()
	return w.flipLocked(key, permille)
}

//go:norace
func (w *World) flipLocked(key string, permille int) bool {
	full, u, ov, has := w.draw(key)
	var v int64
	switch {
	case has:
		v = ov
	case w.Spec.Explicit:
	default:
		if int(u%1000) < permille {
			v = 1
		}
	}
	w.record(full, v)
	return v != 0
}

// Delay draws a duration according to class; 0 by default. The chosen value
// (in ns) is what is recorded, so a replay or a shrunk override can carry any
// duration.
//
//go:norace
func (w *World) Delay(key, class string, permille int) time.Duration {
	w.mu.Lock()
	defer w.mu.Unlock()
	return w.delayLocked(key, class, permille)
}

//go:norace
func (w *World) delayLocked(key, class string, permille int) time.Duration {
	full, u, ov, has := w.draw(key)
	var v int64
	switch {
	case has:
		v = ov
	case w.Spec.Explicit:
	default:
		if int(u%1000) < permille {
			v = delayLaw(class, u>>10)
		}
	}
	w.record(full, v)
	return time.Duration(v)
}

func delayLaw(class string, u uint64) int64 {
	r := u % 100
	u >>= 8
	switch class {
	case "tiny":
		return int64(1 + u%uint64(time.Millisecond))
	case "mid":
		if r < 70 {
			return int64(1 + u%uint64(time.Millisecond))
		}
		return int64(1 + u%uint64(100*time.Millisecond))
	case "long":
		// like "big", but a single stall stays below the brokers' 5 s timers
		if r < 50 {
			return int64(1 + u%uint64(time.Millisecond))
		}
		if r < 75 {
			return int64(1 + u%uint64(100*time.Millisecond))
		}
		return int64(1 + u%uint64(3*time.Second))
	case "big":
		if r < 50 {
			return int64(1 + u%uint64(time.Millisecond))
		}
		if r < 75 {
			return int64(1 + u%uint64(100*time.Millisecond))
		}
		return int64(1 + u%uint64(7*time.Second))
	}
	return 0
}

// FaultOn reports whether a fault kind is enabled for this run.
func (w *World) FaultOn(kind string) bool { return w.faultOn[kind] || w.faultOn["all"] }

//go:norace
func (w *World) CountFault(kind string) {
	w.mu.Lock()
	w.faults.Add(kind, 1)
	w.mu.Unlock()
}

//go:norace
func (w *World) Probe(name string) {
	w.mu.Lock()
	w.probes.Add(name, 1)
	w.mu.Unlock()
}

// ---- event log ---------------------------------------------------------------

// Ev records a kernel event, feeds the running hash and fires event triggers.
// Must be called WITHOUT w.mu held.
//
//go:norace
func (w *World) Ev(p *Proc, kind, key, arg string) {
	pname := "-"
	if p != nil {
		pname = p.Name
	}
	w.mu.Lock()
	w.seq++
	ev := Event{Seq: w.seq, At: w.Now(), Proc: pname, Kind: kind, Key: key, Arg: arg}
	w.Events = append(w.Events, ev)
	line := fmt.Sprintf("%d %d %s %s %s %s", ev.Seq, int64(ev.At), pname, kind, key, arg)
	var b [8]byte
	for i := 0; i < len(line); i++ {
		w.logHash ^= uint64(line[i])
		w.logHash *= 1099511628211
	}
	_ = b
	if w.KeepLog {
		if w.DebugDraws {
			line += fmt.Sprintf(" [draws=%d]", rtDraws())
		}
		w.Log = append(w.Log, line)
	}
	hooks := w.Hooks
	evkey := kind + ":" + key
	var fire []*Trigger
	// profile recording and triggers apply only to events a process produces
	// by its own execution, not to what the kernel does to its descriptors
	// when it dies
	if p != nil && p.state == Running && Cur() == p {
		if w.Spec.Profile {
			pk := pname + " " + evkey
			w.evPass.Add(pk, 1)
			id := pname + "|event|" + evkey
			if _, seen := w.passSeen.Get(id); !seen {
				w.passSeen.Set(id, 1)
				w.PassSeq = append(w.PassSeq, id)
			}
		}
		fire = w.matchTriggers("event", pname, evkey)
	}
	w.mu.Unlock()
	for _, h := range hooks {
		h(&ev)
	}
	for _, t := range fire {
		w.fire(t, p)
	}
}

// Note records a harness-level happening (operation invoke/return) in the log.
func (w *World) Note(kind, key, arg string) { w.Ev(nil, kind, key, arg) }

//go:norace
func (w *World) LogHash() string {
	w.mu.Lock()
	defer w.mu.Unlock()
	var b [8]byte
	binary.BigEndian.PutUint64(b[:], w.logHash)
	return fmt.Sprintf("%x", b)
}

//go:norace
func (w *World) Seq() uint64 {
	w.mu.Lock()
	defer w.mu.Unlock()
	w.seq++
	return w.seq
}

//go:norace
func (w *World) matchTriggers(on, pname, key string) []*Trigger {
	var out []*Trigger
	for _, t := range w.Spec.Triggers {
		if t.done || t.On != on {
			continue
		}
		if t.Proc != "" && t.Proc != pname {
			continue
		}
		if strings.HasSuffix(t.Key, "*") {
			if !strings.HasPrefix(key, strings.TrimSuffix(t.Key, "*")) {
				continue
			}
		} else if t.Key != key {
			continue
		}
		t.hits++
		if t.hits == t.Occ || (t.Occ == 0 && t.hits == 1) {
			t.done = true
			out = append(out, t)
		}
	}
	return out
}

//go:norace
func (w *World) fire(t *Trigger, p *Proc) {
	act, arg, _ := strings.Cut(t.Act, ":")
	w.CountFault("trigger." + act)
	switch act {
	case "kill":
		p.Crash(137, "killed by trigger at "+t.Key)
		if Cur() == p {
			p.gate()
		}
	case "exit":
		var code int
		fmt.Sscanf(arg, "%d", &code)
		p.Exit(code)
	case "stop":
		p.Stop()
		if Cur() == p {
			p.gate()
		}
	case "panic":
		if p != nil && p.Parent != nil {
			// a panic anywhere in a plugin process (also on a goroutine of a
			// library that no trap wraps) is that process crashing with status 2
			// and the trace on its stderr
			if p.Fd2 != nil {
				p.Fd2.writeRaw([]byte("panic: simulated panic at " + t.Key + "\n\ngoroutine 1 [running]:\nmain.main()\n"))
			}
			p.Crash(2, "panic at "+t.Key)
			if Cur() == p {
				p.gate()
			}
			return
		}
		panic("simulated panic at " + t.Key)
	case "sleep":
		var ns int64
		fmt.Sscanf(arg, "%d", &ns)
		w.addInjected(time.Duration(ns))
		time.Sleep(time.Duration(ns))
	case "killproc":
		if q := w.ProcByName(arg); q != nil {
			q.Crash(137, "killed by trigger at "+t.Key)
		}
	case "killprocsleep":
		// killprocsleep:<name>:<ns>: another process dies exactly while the
		// goroutine that passes here is at this statement - and stays there
		// for a while, so that everybody else sees the death first
		name, nsS, _ := strings.Cut(arg, ":")
		var ns int64
		fmt.Sscanf(nsS, "%d", &ns)
		if q := w.ProcByName(name); q != nil {
			q.Crash(137, "killed by trigger at "+t.Key)
		}
		w.addInjected(time.Duration(ns))
		time.Sleep(time.Duration(ns))
		if p != nil && Cur() == p {
			p.gate()
		}
	case "callsleep":
		// callsleep:<name>:<ns>: the run's callback <name> (e.g. "another
		// goroutine calls Kill now") is invoked exactly while the goroutine
		// that passes here is at this statement, which then stays there for ns
		name, nsS, _ := strings.Cut(arg, ":")
		var ns int64
		fmt.Sscanf(nsS, "%d", &ns)
		if f := w.Callbacks[name]; f != nil {
			f()
		}
		w.addInjected(time.Duration(ns))
		time.Sleep(time.Duration(ns))
		if p != nil && Cur() == p {
			p.gate()
		}
	case "stopproc":
		if q := w.ProcByName(arg); q != nil {
			q.Stop()
		}
	case "contproc":
		if q := w.ProcByName(arg); q != nil {
			q.Cont()
		}
	}
}

//go:norace
func (w *World) addInjected(d time.Duration) {
	now := w.Now()
	w.mu.Lock()
	w.stalls = append(w.stalls, stall{now, now + d})
	w.mu.Unlock()
}

type stall struct{ from, to time.Duration }

// InjectedTotal is the stall time injected by the simulator that has ELAPSED
// so far (a stall still in progress counts up to now): the difference between
// two readings is the stall time that overlapped the interval between them,
// whichever goroutine was stalled and whenever its stall began.
//
//go:norace
func (w *World) InjectedTotal() time.Duration {
	now := w.Now()
	w.mu.Lock()
	defer w.mu.Unlock()
	sum := w.Injected
	keep := w.stalls[:0]
	for _, s := range w.stalls {
		if s.to <= now {
			w.Injected += s.to - s.from
			sum += s.to - s.from
			continue
		}
		if s.from < now {
			sum += now - s.from
		}
		keep = append(keep, s)
	}
	w.stalls = keep
	return sum
}

// ---- schedule points ------------------------------------------------------------

//go:norace
func (w *World) isHot(site string) bool {
	if h, ok := w.hot.Get(site); ok {
		return h != 0
	}
	h := false
	for _, f := range w.focus {
		if f != "" && strings.Contains(site, f) {
			h = true
		}
	}
	if !h && w.Spec.HotPermille > 0 {
		h = int(H(w.Spec.Seed, "hot/"+site, 0)%1000) < w.Spec.HotPermille
	}
	if h {
		w.hot.Set(site, 1)
	} else {
		w.hot.Set(site, 0)
	}
	return h
}

// Y is the schedule point woven before every statement of go-plugin.
//
//go:norace
func Y(site string) {
	w := W
	if w == nil {
		return
	}
	p := Cur()
	pname := "-"
	if p != nil {
		p.gate()
		pname = p.Name
	}
	w.mu.Lock()
	if w.DebugY {
		w.Log = append(w.Log, fmt.Sprintf("   Y %s %s [draws=%d]", pname, site, rtDraws()))
	}
	if w.Spec.Profile {
		w.sitePass.Add(pname+" "+site, 1)
		id := pname + "|site|" + site
		if _, seen := w.passSeen.Get(id); !seen {
			w.passSeen.Set(id, 1)
			w.PassSeq = append(w.PassSeq, id)
		}
	}
	var fire []*Trigger
	if len(w.Spec.Triggers) > 0 {
		fire = w.matchTriggers("site", pname, site)
	}
	var v int64
	key := ""
	if w.Spec.Explicit {
		if len(w.Spec.Overrides) > 0 {
			key = "y/" + pname + "/" + site
			full, _, ov, has := w.draw(key)
			if has {
				v = ov
				w.record(full, v)
			}
		}
	} else if (w.Spec.HotPermille > 0 || len(w.focus) > 0) && w.isHot(site) {
		key = "y/" + pname + "/" + site
		full, u, ov, has := w.draw(key)
		if has {
			v = ov
		} else {
			r := u % 100
			switch {
			case r < 60:
			case r < 80:
				v = 1 // gosched
			default:
				v = delayLaw(w.Spec.DelayClass, u>>8)
				if v == 0 {
					v = 1
				} else {
					v++ // keep 1 reserved for gosched
				}
			}
		}
		w.record(full, v)
	}
	w.mu.Unlock()
	for _, t := range fire {
		w.fire(t, p)
	}
	switch {
	case v == 1:
		gosched()
	case v > 1:
		w.addInjected(time.Duration(v))
		w.CountFault("yield.sleep")
		time.Sleep(time.Duration(v))
		if p != nil {
			p.gate()
		}
	}
}

// SortedKeys is a helper for deterministic iteration.
func SortedKeys[V any](m map[string]V) []string {
	ks := make([]string, 0, len(m))
	for k := range m {
		ks = append(ks, k)
	}
	sort.Strings(ks)
	return ks
}

// Faults, Probes, Choices, SitePass, EvPass as built-in maps (end of run / oracles).
//
//go:norace
func (w *World) Faults() map[string]int { return w.faults.Map() }

//go:norace
func (w *World) Probes() map[string]int { return w.probes.Map() }

//go:norace
func (w *World) Choices() map[string]int64 { return w.choices.Map64() }

// DrawCounts: how often each choice key was drawn so far (fault-point enumeration).
//
//go:norace
func (w *World) DrawCounts() map[string]int { return w.idx.Map() }

//go:norace
func (w *World) SitePass() map[string]int { return w.sitePass.Map() }

//go:norace
func (w *World) EvPass() map[string]int { return w.evPass.Map() }

//go:norace
func (w *World) FaultCount(kind string) int {
	v, _ := w.faults.Get(kind)
	return int(v)
}

//go:norace
func (w *World) ProbeCount(name string) int {
	v, _ := w.probes.Get(name)
	return int(v)
}
