package k

import (
	"io"
	"os"
	"sync"
	"time"
)

// notifier is a broadcast condition usable in select.
type notifier struct{ ch chan struct{} }

func (n *notifier) wait() <-chan struct{} {
	if n.ch == nil {
		n.ch = make(chan struct{})
	}
	return n.ch
}

func (n *notifier) broadcast() {
	if n.ch != nil {
		close(n.ch)
		n.ch = nil
	}
}

type chunk struct {
	data []byte
	at   time.Time
}

// pipeBuf is one direction of a byte stream (pipe, or half of a socket):
// bounded, FIFO, never loses, duplicates or reorders bytes; each write may be
// given a delivery latency.
type pipeBuf struct {
	mu      sync.Mutex
	n       notifier
	name    string
	chunks  []chunk
	size    int
	cap     int
	wclosed bool // write side closed: EOF once drained
	rclosed bool // read side closed: writes fail
	reset   bool // connection reset: both sides fail at once
	lastAt  time.Time
	written int64
	readN   int64
	nwrites int
}

func newPipeBuf(name string, capacity int) *pipeBuf {
	if capacity <= 0 {
		capacity = 64 << 10
	}
	return &pipeBuf{name: name, cap: capacity}
}

type deadliner struct {
	mu sync.Mutex
	t  time.Time
	n  notifier
}

func (d *deadliner) set(t time.Time) {
	d.mu.Lock()
	d.t = t
	d.n.broadcast()
	d.mu.Unlock()
}

func (d *deadliner) get() (time.Time, <-chan struct{}) {
	d.mu.Lock()
	defer d.mu.Unlock()
	return d.t, d.n.wait()
}

type timeoutError struct{}

func (timeoutError) Error() string   { return "i/o timeout" }
func (timeoutError) Timeout() bool   { return true }
func (timeoutError) Temporary() bool { return true }
func (timeoutError) Is(err error) bool {
	return err == os.ErrDeadlineExceeded
}

var errTimeout error = timeoutError{}

// read blocks until data is deliverable, EOF, reset, close or deadline.
// limit>0 bounds the bytes returned (short reads).
func (b *pipeBuf) read(p []byte, dl *deadliner, owner *Proc, limit int, closedErr error) (int, error) {
	for {
		owner.gate()
		var dlT time.Time
		var dlCh <-chan struct{}
		if dl != nil {
			dlT, dlCh = dl.get()
		}
		now := time.Now()
		b.mu.Lock()
		if b.rclosed {
			b.mu.Unlock()
			return 0, closedErr
		}
		if b.reset {
			b.mu.Unlock()
			return 0, ECONNRESET
		}
		if len(p) == 0 {
			b.mu.Unlock()
			return 0, nil
		}
		if !dlT.IsZero() && !dlT.After(now) {
			// a deadline that has passed fails the call at once, data or not
			b.mu.Unlock()
			return 0, errTimeout
		}
		var until time.Duration = -1
		if len(b.chunks) > 0 {
			c := &b.chunks[0]
			if !c.at.After(now) {
				n := len(c.data)
				if n > len(p) {
					n = len(p)
				}
				if limit > 0 && n > limit {
					n = limit
				}
				copy(p, c.data[:n])
				c.data = c.data[n:]
				if len(c.data) == 0 {
					b.chunks = b.chunks[1:]
				}
				b.size -= n
				b.readN += int64(n)
				b.n.broadcast()
				b.mu.Unlock()
				return n, nil
			}
			until = c.at.Sub(now)
		} else if b.wclosed {
			b.mu.Unlock()
			return 0, io.EOF
		}
		if !dlT.IsZero() && !dlT.After(now) {
			b.mu.Unlock()
			return 0, errTimeout
		}
		ch := b.n.wait()
		b.mu.Unlock()
		if !dlT.IsZero() {
			if d := dlT.Sub(now); until < 0 || d < until {
				until = d
			}
		}
		if until >= 0 {
			t := time.NewTimer(until)
			select {
			case <-ch:
			case <-dlCh:
			case <-t.C:
			}
			t.Stop()
		} else {
			select {
			case <-ch:
			case <-dlCh:
			}
		}
	}
}

// write appends p, blocking while the buffer is full. lat delays delivery.
func (b *pipeBuf) write(p []byte, dl *deadliner, owner *Proc, lat time.Duration, closedErr error) (int, error) {
	total := 0
	for {
		owner.gate()
		var dlT time.Time
		var dlCh <-chan struct{}
		if dl != nil {
			dlT, dlCh = dl.get()
		}
		now := time.Now()
		b.mu.Lock()
		if b.wclosed {
			b.mu.Unlock()
			return total, closedErr
		}
		if b.reset {
			b.mu.Unlock()
			return total, ECONNRESET
		}
		if b.rclosed {
			b.mu.Unlock()
			return total, EPIPE
		}
		if len(p) == 0 {
			b.mu.Unlock()
			return total, nil
		}
		if !dlT.IsZero() && !dlT.After(now) {
			// a deadline that has passed fails the call at once, room or not
			b.mu.Unlock()
			return total, errTimeout
		}
		if room := b.cap - b.size; room > 0 {
			n := len(p)
			if n > room {
				n = room
			}
			at := now.Add(lat)
			if at.Before(b.lastAt) {
				at = b.lastAt
			}
			b.lastAt = at
			b.chunks = append(b.chunks, chunk{data: append([]byte(nil), p[:n]...), at: at})
			b.size += n
			b.written += int64(n)
			b.nwrites++
			p = p[n:]
			total += n
			b.n.broadcast()
			if len(p) == 0 {
				b.mu.Unlock()
				return total, nil
			}
			b.mu.Unlock()
			continue
		}
		if !dlT.IsZero() && !dlT.After(now) {
			b.mu.Unlock()
			return total, errTimeout
		}
		ch := b.n.wait()
		b.mu.Unlock()
		if !dlT.IsZero() {
			t := time.NewTimer(dlT.Sub(now))
			select {
			case <-ch:
			case <-dlCh:
			case <-t.C:
			}
			t.Stop()
		} else {
			select {
			case <-ch:
			case <-dlCh:
			}
		}
	}
}

func (b *pipeBuf) closeWrite() {
	b.mu.Lock()
	b.wclosed = true
	b.n.broadcast()
	b.mu.Unlock()
}

func (b *pipeBuf) closeRead() {
	b.mu.Lock()
	b.rclosed = true
	b.chunks = nil
	b.size = 0
	b.n.broadcast()
	b.mu.Unlock()
}

func (b *pipeBuf) doReset() {
	b.mu.Lock()
	b.reset = true
	b.chunks = nil
	b.size = 0
	b.n.broadcast()
	b.mu.Unlock()
}

func (b *pipeBuf) pending() int {
	b.mu.Lock()
	defer b.mu.Unlock()
	return b.size
}

func (b *pipeBuf) poke() {
	b.mu.Lock()
	b.n.broadcast()
	b.mu.Unlock()
}
