// verif is the driver: it builds the simulator worker from /repo's working
// tree, asks it for the plan of a property, executes every planned run in a
// fresh worker process (16 in parallel), classifies the results, minimises and
// replays violations, and writes the evidence file.
//
//	verif check <Cnn> [--tier quick|thorough] [--seed N] [--budget seconds] [--keep]
//	verif replay <file>
//	verif selftest determinism [--seeds N] [--reps N]
//	verif run <spec.json>            (development: run one spec, print the log)
//
// exit status: 0 held (possibly with KNOWN-FINDING lines); 1 VIOLATION;
// 2 build / watchdog / determinism trouble (never a verdict).
package main

import (
	"bufio"
	"bytes"
	"context"
	"crypto/sha256"
	"encoding/json"
	"flag"
	"fmt"
	"os"
	"os/exec"
	"path/filepath"
	"regexp"
	"sort"
	"strconv"
	"strings"
	"sync"
	"time"
)

type Trigger struct {
	On   string `json:"on"`
	Proc string `json:"proc"`
	Key  string `json:"key"`
	Occ  int    `json:"occ"`
	Act  string `json:"act"`
}

type Spec struct {
	Prop        string            `json:"prop"`
	Case        string            `json:"case,omitempty"`
	Seed        uint64            `json:"seed"`
	Explicit    bool              `json:"explicit,omitempty"`
	Overrides   map[string]int64  `json:"overrides,omitempty"`
	Params      map[string]string `json:"params,omitempty"`
	Triggers    []*Trigger        `json:"triggers,omitempty"`
	Profile     bool              `json:"profile,omitempty"`
	HotPermille int               `json:"hot,omitempty"`
	Focus       string            `json:"focus,omitempty"`
	DelayClass  string            `json:"delay,omitempty"`
	Faults      string            `json:"faults,omitempty"`
	Wake        int               `json:"wake,omitempty"`
}

type Violation struct {
	Class  string `json:"class"`
	Sig    string `json:"sig"`
	Detail string `json:"detail"`
}

type Result struct {
	Prop       string            `json:"prop"`
	Case       string            `json:"case,omitempty"`
	Seed       uint64            `json:"seed"`
	Verdict    string            `json:"verdict"`
	Violations []Violation       `json:"violations,omitempty"`
	Faults     map[string]int    `json:"faults,omitempty"`
	Probes     map[string]int    `json:"probes,omitempty"`
	SimNS      int64             `json:"sim_ns"`
	Events     int               `json:"events"`
	LogHash    string            `json:"loghash"`
	SchedSig   string            `json:"schedsig"`
	Nontrivial bool              `json:"nontrivial"`
	Choices    map[string]int64  `json:"choices,omitempty"`
	Log        []string          `json:"log,omitempty"`
	Sample     []string          `json:"sample,omitempty"`
	PassSeq    []string          `json:"passseq,omitempty"`
	SitePass   map[string]int    `json:"sitepass,omitempty"`
	EvPass     map[string]int    `json:"evpass,omitempty"`
	Info       map[string]string `json:"info,omitempty"`
	SitesHit   int               `json:"sites_hit,omitempty"`
	RtDraws    uint64            `json:"rt_draws,omitempty"`
	SpecEcho   *Spec             `json:"spec,omitempty"`

	// driver side
	spec   *Spec
	infra  string // non-empty: the run did not produce a verdict (watchdog, crash of a non-host goroutine, ...)
	stderr string
	wallMS int64
}

type Meta struct {
	ID          string   `json:"id"`
	Level       string   `json:"level"`
	Race        bool     `json:"race"`
	Rule        string   `json:"rule"`
	Assumptions []string `json:"assumptions"`
	Exhaustive  string   `json:"exhaustive"` // description of the sub-space enumerated completely ("" none)
	Components  string   `json:"components"`
	Stages      int      `json:"stages"`
}

type Finding struct {
	Status   string `json:"status"` // finding | fixed
	Property string `json:"property"`
	Class    string `json:"class"`
	Sig      string `json:"sig"`
	What     string `json:"what"`
	Commit   string `json:"commit,omitempty"`
}

var verifDir = func() string {
	if d := os.Getenv("VERIF_DIR"); d != "" {
		return d
	}
	return "/verif"
}()

// outDir is where evidence and replay files go (redirected for mutant runs).
func outDir() string {
	if d := os.Getenv("VERIF_OUT"); d != "" {
		return d
	}
	return verifDir
}

var workers = 16

func main() {
	if len(os.Args) < 2 {
		usage()
	}
	if v := os.Getenv("VERIF_WORKERS"); v != "" {
		workers, _ = strconv.Atoi(v)
	}
	switch os.Args[1] {
	case "check":
		os.Exit(cmdCheck(os.Args[2:]))
	case "replay":
		os.Exit(cmdReplay(os.Args[2:]))
	case "selftest":
		os.Exit(cmdSelftest(os.Args[2:]))
	case "run":
		os.Exit(cmdRun(os.Args[2:]))
	default:
		usage()
	}
}

func usage() {
	fmt.Fprintln(os.Stderr, "usage: verif check <Cnn> [--tier quick|thorough] [--seed N] | replay <file> | selftest determinism | run <spec.json>")
	os.Exit(2)
}

// ---- build -------------------------------------------------------------------------

type build struct {
	dir    string
	worker string
	race   string
	tree   string
}

func newBuild(race bool) (*build, error) {
	dir, err := os.MkdirTemp("/var/tmp", "verif-build.")
	if err != nil {
		return nil, err
	}
	b := &build{dir: dir, worker: filepath.Join(dir, "worker")}
	cmd := exec.Command(filepath.Join(verifDir, "build_worker.sh"), dir)
	out, err := cmd.CombinedOutput()
	if err != nil {
		os.RemoveAll(dir)
		return nil, fmt.Errorf("building the simulator worker failed:\n%s", out)
	}
	if race {
		cmd := exec.Command(filepath.Join(verifDir, "build_worker.sh"), dir, "race")
		out, err := cmd.CombinedOutput()
		if err != nil {
			os.RemoveAll(dir)
			return nil, fmt.Errorf("building the race worker failed:\n%s", out)
		}
		b.race = filepath.Join(dir, "worker.race")
	}
	b.tree = treeHash(filepath.Join(dir, "sim", "goplugin"))
	return b, nil
}

func (b *build) cleanup() {
	if os.Getenv("VERIF_KEEP") == "" {
		os.RemoveAll(b.dir)
	}
}

func treeHash(dir string) string {
	h := sha256.New()
	var files []string
	filepath.Walk(dir, func(p string, info os.FileInfo, err error) error {
		if err == nil && !info.IsDir() && strings.HasSuffix(p, ".go") {
			files = append(files, p)
		}
		return nil
	})
	sort.Strings(files)
	for _, f := range files {
		b, _ := os.ReadFile(f)
		h.Write([]byte(f[len(dir):]))
		h.Write(b)
	}
	return fmt.Sprintf("%x", h.Sum(nil))[:16]
}

func workerEnv(extra ...string) []string {
	env := []string{"PATH=" + os.Getenv("PATH"), "HOME=/root", "GODEBUG=asyncpreemptoff=1,tracebacklabels=1", "GOGC=off", "GOMAXPROCS=1", "GOTRACEBACK=all",
		"GORACE=halt_on_error=0 exitcode=0 history_size=7"}
	if v := os.Getenv("VERIF_DEBUG_Y"); v != "" {
		env = append(env, "VERIF_DEBUG_Y="+v) // debugging aid (changes what the run allocates)
	}
	return append(env, extra...)
}

// ---- plans ---------------------------------------------------------------------------

func (b *build) plan(prop, tier string, seed uint64, stage int, prev []*Result) ([]*Spec, error) {
	cmd := exec.Command(b.worker, "-test.run", "TestSim")
	cmd.Env = workerEnv(fmt.Sprintf("VERIF_PLAN=%s:%s:%d:%d", prop, tier, seed, stage), "VERIF_BUDGET_S="+os.Getenv("VERIF_BUDGET_S"))
	var in bytes.Buffer
	for _, r := range prev {
		if r.infra != "" {
			continue
		}
		r.SpecEcho = r.spec
		bb, _ := json.Marshal(r)
		r.SpecEcho = nil
		in.Write(bb)
		in.WriteByte('\n')
	}
	cmd.Stdin = &in
	var errb bytes.Buffer
	cmd.Stderr = &errb
	out, err := cmd.Output()
	if err != nil {
		return nil, fmt.Errorf("plan %s stage %d: %v\n%s", prop, stage, err, errb.String())
	}
	var specs []*Spec
	ended := false
	sc := bufio.NewScanner(bytes.NewReader(out))
	sc.Buffer(make([]byte, 1<<20), 64<<20)
	for sc.Scan() {
		line := sc.Text()
		if strings.HasPrefix(line, "SPEC ") {
			s := &Spec{}
			if err := json.Unmarshal([]byte(line[5:]), s); err != nil {
				return nil, err
			}
			specs = append(specs, s)
		} else if line == "PLAN-END" {
			ended = true
		}
	}
	if !ended {
		return nil, fmt.Errorf("plan %s stage %d: truncated output\n%s", prop, stage, errb.String())
	}
	return specs, nil
}

func (b *build) meta(prop string) (*Meta, error) {
	cmd := exec.Command(b.worker, "-test.run", "TestSim")
	cmd.Env = workerEnv("VERIF_META=" + prop)
	out, err := cmd.Output()
	if err != nil {
		return nil, fmt.Errorf("meta %s: %v", prop, err)
	}
	for _, line := range strings.Split(string(out), "\n") {
		if strings.HasPrefix(line, "META ") {
			m := &Meta{}
			if err := json.Unmarshal([]byte(line[5:]), m); err != nil {
				return nil, err
			}
			return m, nil
		}
	}
	return nil, fmt.Errorf("meta %s: no META line", prop)
}

// ---- running one spec ---------------------------------------------------------------

func (b *build) runSpec(s *Spec, race bool, extraEnv ...string) *Result {
	bin := b.worker
	if race && b.race != "" {
		bin = b.race
	}
	js, _ := json.Marshal(s)
	timeout := 90 * time.Second
	if race {
		timeout = 240 * time.Second
	}
	ctx, cancel := context.WithTimeout(context.Background(), timeout)
	defer cancel()
	cmd := exec.CommandContext(ctx, bin, "-test.run", "TestSim", "-test.timeout", "0")
	// the same variables with values of the same length in every mode: the
	// size of the environment must not differ between a check, a replay and a
	// logged run of one spec (it shifts what the process allocates at start)
	flags := map[string]string{"VERIF_LOG": "0", "VERIF_CHOICES": "0", "VERIF_SAMPLE": "0"}
	for _, e := range extraEnv {
		if kk, v, ok := strings.Cut(e, "="); ok {
			flags[kk] = v
		}
	}
	env := workerEnv("VERIF_LOG="+flags["VERIF_LOG"], "VERIF_CHOICES="+flags["VERIF_CHOICES"], "VERIF_SAMPLE="+flags["VERIF_SAMPLE"])
	if len(js) < 100000 {
		env = append(env, "VERIF_SPEC="+string(js))
	} else {
		f, _ := os.CreateTemp(b.dir, "spec*.json")
		f.Write(js)
		f.Close()
		defer os.Remove(f.Name())
		env = append(env, "VERIF_SPEC_FILE="+f.Name())
	}
	cmd.Env = env
	var outb, errb bytes.Buffer
	cmd.Stdout = &outb
	cmd.Stderr = &errb
	t0 := time.Now()
	err := cmd.Run()
	res := &Result{Prop: s.Prop, Case: s.Case, Seed: s.Seed, spec: s, wallMS: time.Since(t0).Milliseconds()}
	got := false
	for _, line := range strings.Split(outb.String(), "\n") {
		if strings.HasPrefix(line, "RESULT ") {
			if e := json.Unmarshal([]byte(line[7:]), res); e == nil {
				got = true
			}
		}
	}
	res.spec = s
	res.stderr = tail(errb.String(), 12000)
	if f := os.Getenv("VERIF_SHOW_STDERR"); f != "" && f != "1" {
		os.WriteFile(f, errb.Bytes(), 0o644) // debugging aid: the worker's whole stderr
	}
	if race {
		if rep := raceReports(errb.String()); len(rep) > 0 {
			for _, r := range rep {
				res.Violations = append(res.Violations, r)
			}
			res.Verdict = "violation"
		}
	}
	if got {
		return res
	}
	// no verdict from the worker: classify
	if ctx.Err() != nil {
		res.infra = fmt.Sprintf("watchdog: no verdict after %v real time", timeout)
		return res
	}
	all := errb.String() + outb.String()
	if v := crashViolation(all); v != nil {
		res.Verdict = "violation"
		res.Violations = append(res.Violations, *v)
		return res
	}
	res.infra = fmt.Sprintf("worker ended without a verdict (%v): %s", err, tail(all, 3000))
	return res
}

func tail(s string, n int) string {
	if len(s) > n {
		return "..." + s[len(s)-n:]
	}
	return s
}

var simprocRe = regexp.MustCompile(`"simproc":\s*"([^"]+)"`)

// crashViolation attributes an uncontained Go panic of the worker. With
// GODEBUG=tracebacklabels=1 the panicking goroutine's header carries the
// simulated process; only a panic on a host goroutine is a violation.
func crashViolation(out string) *Violation {
	i := strings.Index(out, "\npanic: ")
	if i < 0 {
		if strings.HasPrefix(out, "panic: ") {
			i = 0
		} else if j := strings.Index(out, "fatal error: "); j >= 0 && (strings.Contains(out[j:], "concurrent map") || strings.Contains(out[j:], "all goroutines are asleep")) {
			i = j
		} else {
			return nil
		}
	}
	body := out[i:]
	// first goroutine header after the panic line
	hdr := ""
	for _, l := range strings.Split(body, "\n") {
		if strings.HasPrefix(l, "goroutine ") && strings.Contains(l, "[running") {
			hdr = l
			break
		}
	}
	proc := ""
	if m := simprocRe.FindStringSubmatch(hdr); m != nil {
		proc = m[1]
	}
	if proc != "" && proc != "host" {
		return nil // a plugin-side panic that escaped the trap: infrastructure, not a verdict
	}
	if !strings.Contains(body, "simworld/goplugin") {
		return nil
	}
	first := strings.SplitN(strings.TrimSpace(body), "\n", 2)[0]
	if len(first) > 160 {
		first = first[:160]
	}
	frame := ""
	for _, l := range strings.Split(body, "\n") {
		l = strings.TrimSpace(l)
		if strings.HasPrefix(l, "simworld/goplugin") {
			frame = l
			if k := strings.LastIndex(frame, "("); k > 0 {
				frame = frame[:k]
			}
			frame = strings.TrimPrefix(frame, "simworld/goplugin")
			break
		}
	}
	return &Violation{Class: "host-panic", Sig: fmt.Sprintf("uncontained %q at=%s", first, frame), Detail: tail(body, 6000)}
}

// raceReports extracts race detector reports in which at least one of the two
// racing accesses is performed by go-plugin code itself (top frame of the
// access stack); reports confined to the harness, grpc-go or yamux are not
// counted.
func raceReports(stderr string) []Violation {
	var out []Violation
	parts := strings.Split(stderr, "WARNING: DATA RACE")
	for _, p := range parts[1:] {
		if e := strings.Index(p, "=================="); e >= 0 {
			p = p[:e]
		}
		lines := strings.Split(p, "\n")
		var tops []string
		annotInPlugin := false
		for i, l := range lines {
			t := strings.TrimSpace(l)
			if strings.HasPrefix(t, "Read at ") || strings.HasPrefix(t, "Write at ") || strings.HasPrefix(t, "Previous read at ") || strings.HasPrefix(t, "Previous write at ") || strings.HasPrefix(t, "Atomic") || strings.HasPrefix(t, "Previous atomic") {
				// the access's own function: first frame that is not a runtime helper (map operations etc.)
				// An access announced by a sync primitive's own annotation
				// (WaitGroup misuse: Add racing Wait) is reported without the
				// frame of the function that made the call: the first frame is
				// the <autogenerated> wrapper, the next one the CALLER of the
				// accessing function. Such a report counts when any frame of
				// that stack is go-plugin code.
				annot := i+2 < len(lines) && (strings.HasPrefix(strings.TrimSpace(lines[i+1]), "runtime.raceread()") || strings.HasPrefix(strings.TrimSpace(lines[i+1]), "runtime.racewrite()")) && strings.Contains(lines[i+2], "<autogenerated>")
				if annot {
					for j := i + 1; j < len(lines); j += 2 {
						f := strings.TrimSpace(lines[j])
						if f == "" {
							break
						}
						if strings.HasPrefix(f, "simworld/goplugin") {
							annotInPlugin = true
						}
					}
				}
				for j := i + 1; j < len(lines); j += 2 {
					f := strings.TrimSpace(lines[j])
					if f == "" {
						break
					}
					if strings.HasPrefix(f, "runtime.") || strings.HasPrefix(f, "internal/") || strings.HasPrefix(f, "sync.") || strings.HasPrefix(f, "sync/") {
						continue
					}
					tops = append(tops, f)
					break
				}
			}
		}
		var frames []string
		inPlugin := false
		for _, f := range tops {
			if k := strings.LastIndex(f, "("); k > 0 {
				f = f[:k]
			}
			if strings.HasPrefix(f, "simworld/goplugin") {
				inPlugin = true
			}
			frames = append(frames, strings.TrimPrefix(f, "simworld/goplugin"))
		}
		if !inPlugin && !annotInPlugin {
			continue
		}
		sort.Strings(frames)
		out = append(out, Violation{Class: "data-race", Sig: strings.Join(frames, " vs "), Detail: tail(p, 5000)})
	}
	return out
}

// runAll executes specs in parallel until done or the deadline passes.
func (b *build) runAll(specs []*Spec, race bool, deadline time.Time, sampleFirst int, onResult func(*Result)) (done int) {
	var mu sync.Mutex
	next := 0
	var wg sync.WaitGroup
	n := workers
	// the race worker is used for the runs that ask for it (Params race=1) and
	// for nothing else: it is ~40x slower; at most 8 of them at a time
	allRace := race
	for _, s := range specs {
		if s.Params["race"] != "1" {
			allRace = false
			break
		}
	}
	if allRace && n > 8 {
		n = 8
	}
	raceSem := make(chan struct{}, 8)
	for w := 0; w < n; w++ {
		wg.Add(1)
		go func() {
			defer wg.Done()
			for {
				mu.Lock()
				if next >= len(specs) || (!deadline.IsZero() && time.Now().After(deadline)) {
					mu.Unlock()
					return
				}
				i := next
				next++
				mu.Unlock()
				var env []string
				if i < sampleFirst {
					env = append(env, "VERIF_SAMPLE=1")
				}
				useRace := race && specs[i].Params["race"] == "1"
				if useRace {
					raceSem <- struct{}{}
				}
				r := b.runSpec(specs[i], useRace, env...)
				if useRace {
					<-raceSem
				}
				mu.Lock()
				done++
				onResult(r)
				mu.Unlock()
			}
		}()
	}
	wg.Wait()
	return
}

// ---- check ----------------------------------------------------------------------------

func loadFindings() []Finding {
	var out []Finding
	f, err := os.Open(filepath.Join(verifDir, "known_findings.jsonl"))
	if err != nil {
		return nil
	}
	defer f.Close()
	sc := bufio.NewScanner(f)
	sc.Buffer(make([]byte, 1<<20), 1<<22)
	for sc.Scan() {
		line := strings.TrimSpace(sc.Text())
		if line == "" || strings.HasPrefix(line, "#") {
			continue
		}
		var fd Finding
		if json.Unmarshal([]byte(line), &fd) == nil {
			out = append(out, fd)
		}
	}
	return out
}

func matchFinding(fs []Finding, prop string, v Violation) *Finding {
	for i := range fs {
		f := &fs[i]
		if f.Status != "finding" || f.Property != prop || f.Class != v.Class {
			continue
		}
		if f.Sig == v.Sig || (strings.HasSuffix(f.Sig, "*") && strings.HasPrefix(v.Sig, strings.TrimSuffix(f.Sig, "*"))) {
			return f
		}
	}
	return nil
}

type vgroup struct {
	v      Violation
	first  *Result
	count  int
	known  *Finding
	replay string
}

func cmdCheck(args []string) int {
	fs := flag.NewFlagSet("check", flag.ExitOnError)
	tier := fs.String("tier", envOr("VERIF_TIER", "quick"), "quick|thorough")
	seed := fs.Uint64("seed", envU("VERIF_SEED", 1), "base seed")
	budget := fs.Int("budget", int(envU("VERIF_BUDGET_S", 0)), "wall-clock budget in seconds for the run phase (0: tier default)")
	if len(args) < 1 {
		usage()
	}
	prop := args[0]
	fs.Parse(args[1:])
	if *budget == 0 {
		if *tier == "thorough" {
			*budget = 600
		} else {
			*budget = 150
		}
	}
	os.Setenv("VERIF_BUDGET_S", strconv.Itoa(*budget))
	t0 := time.Now()
	fmt.Printf("verif: property=%s tier=%s VERIF_SEED=%d budget=%ds workers=%d\n", prop, *tier, *seed, *budget, workers)

	b0, err := newBuild(false)
	if err != nil {
		fmt.Fprintln(os.Stderr, "BUILD-ERROR:", err)
		return 2
	}
	defer b0.cleanup()
	meta, err := b0.meta(prop)
	if err != nil {
		fmt.Fprintln(os.Stderr, "BUILD-ERROR:", err)
		return 2
	}
	b := b0
	if meta.Race {
		cmd := exec.Command(filepath.Join(verifDir, "build_worker.sh"), b.dir, "race")
		if out, err := cmd.CombinedOutput(); err != nil {
			fmt.Fprintf(os.Stderr, "BUILD-ERROR: race worker: %s\n", out)
			return 2
		}
		b.race = filepath.Join(b.dir, "worker.race")
	}
	fmt.Printf("verif: built worker from /repo working tree (rewritten tree %s) in %.1fs\n", b.tree, time.Since(t0).Seconds())

	findings := loadFindings()
	var deadline time.Time
	var all []*Result
	var prev []*Result
	groups := map[string]*vgroup{}
	var order []string
	infra := 0
	var infraMsgs []string
	evals := 0
	planned := 0
	truncated := false
	for stage := 0; ; stage++ {
		specs, err := b.plan(prop, *tier, *seed, stage, prev)
		if err != nil {
			fmt.Fprintln(os.Stderr, "BUILD-ERROR:", err)
			return 2
		}
		if len(specs) == 0 {
			break
		}
		planned += len(specs)
		if deadline.IsZero() {
			// the budget is for running, not for planning
			deadline = time.Now().Add(time.Duration(*budget) * time.Second)
		}
		// a property whose later stages are planned from this one keeps 40 % of
		// the budget for them (what this stage does not use is theirs as well)
		stageDeadline := deadline
		if stage == 0 && meta.Stages > 1 {
			stageDeadline = time.Now().Add(time.Duration(*budget) * time.Second * 6 / 10)
		}
		var stageRes []*Result
		done := b.runAll(specs, meta.Race && specRace(specs), stageDeadline, 6, func(r *Result) {
			stageRes = append(stageRes, r)
			if r.infra != "" {
				infra++
				if len(infraMsgs) < 5 {
					infraMsgs = append(infraMsgs, fmt.Sprintf("case=%s seed=%d: %s", r.Case, r.Seed, r.infra))
					// keep the spec: `verif run <file>` repeats the run
					if js, err := json.MarshalIndent(r.spec, "", " "); err == nil {
						os.MkdirAll(filepath.Join(outDir(), "replays"), 0o755)
						os.WriteFile(filepath.Join(outDir(), "replays", fmt.Sprintf("NOVERDICT-%s-%d.spec.json", prop, r.Seed)), js, 0o644)
					}
				}
				return
			}
			evals++
			for _, v := range r.Violations {
				key := v.Class + "|" + v.Sig
				g := groups[key]
				if g == nil {
					g = &vgroup{v: v, first: r, known: matchFinding(findings, prop, v)}
					groups[key] = g
					order = append(order, key)
				}
				g.count++
			}
		})
		if done < len(specs) {
			truncated = true
		}
		sort.SliceStable(stageRes, func(i, j int) bool { return false })
		all = append(all, stageRes...)
		prev = stageRes
		fmt.Printf("verif: stage %d: %d/%d runs, %d violation signatures so far, %d without verdict\n", stage, done, len(specs), len(groups), infra)
		if truncated && !time.Now().Before(deadline) {
			break // the whole budget is used up (a stage cut short at its own share goes on to the next)
		}
	}

	// minimise + replay new violations
	exit := 0
	sort.Strings(order)
	for _, key := range order {
		g := groups[key]
		if g.known != nil {
			continue
		}
		path, ok, note := b.minimiseAndReplay(prop, g)
		g.replay = path
		if !ok {
			fmt.Printf("verif: replay of %s diverged: %s\n", key, note)
			fmt.Fprintf(os.Stderr, "REPLAY-DIVERGED property=%s sig=%q %s\n", prop, g.v.Sig, note)
			exit = 2
		}
	}
	for _, key := range order {
		g := groups[key]
		if g.known != nil {
			fmt.Printf("KNOWN-FINDING: property=%s %s [%s %s] (%d runs)\n", prop, g.known.What, g.v.Class, g.v.Sig, g.count)
			continue
		}
		fmt.Printf("VIOLATION property=%s replay=%s\n", prop, g.replay)
		fmt.Printf("  class=%s sig=%s runs=%d first: case=%s seed=%d\n  %s\n", g.v.Class, g.v.Sig, g.count, g.first.Case, g.first.Seed, indent(firstN(g.v.Detail, 1500)))
		if exit == 0 {
			exit = 1
		}
	}
	if infra > 0 {
		for _, m := range infraMsgs {
			fmt.Fprintln(os.Stderr, "NO-VERDICT:", firstN(m, 2000))
		}
		// runs without a verdict are never counted as held; many of them mean the machinery is broken
		if infra*20 > evals+infra || evals == 0 {
			fmt.Fprintf(os.Stderr, "verif: %d of %d runs ended without a verdict: treating the check as broken (exit 2)\n", infra, evals+infra)
			if exit == 0 {
				exit = 2
			}
		}
	}
	if evals == 0 && exit == 0 {
		fmt.Fprintln(os.Stderr, "verif: not a single run produced a verdict: treating the check as broken (exit 2)")
		exit = 2
	}
	writeEvidence(prop, *tier, *seed, meta, b, all, groups, evals, planned, infra, truncated, time.Since(t0))
	fmt.Printf("verif: property=%s evaluations=%d planned=%d no-verdict=%d violations=%d wall=%.1fs exit=%d\n", prop, evals, planned, infra, countNew(groups), time.Since(t0).Seconds(), exit)
	return exit
}

func specRace(specs []*Spec) bool {
	for _, s := range specs {
		if s.Params["race"] == "1" {
			return true
		}
	}
	return false
}

func countNew(groups map[string]*vgroup) int {
	n := 0
	for _, g := range groups {
		if g.known == nil {
			n++
		}
	}
	return n
}

func indent(s string) string { return strings.ReplaceAll(s, "\n", "\n  ") }
func firstN(s string, n int) string {
	if len(s) > n {
		return s[:n] + "..."
	}
	return s
}

func envOr(k, d string) string {
	if v := os.Getenv(k); v != "" {
		return v
	}
	return d
}
func envU(k string, d uint64) uint64 {
	if v := os.Getenv(k); v != "" {
		if n, err := strconv.ParseUint(v, 10, 64); err == nil {
			return n
		}
	}
	return d
}

// ---- minimisation ---------------------------------------------------------------------

type ReplayFile struct {
	Property string    `json:"property"`
	Tree     string    `json:"tree"`
	Spec     *Spec     `json:"spec"`
	Expect   Violation `json:"expect"`
	LogHash  string    `json:"loghash"`
	Race     bool      `json:"race,omitempty"`
	Note     string    `json:"note,omitempty"`
	History  []string  `json:"history,omitempty"`
}

func hasViolation(r *Result, v Violation) bool {
	for _, x := range r.Violations {
		if x.Class == v.Class && x.Sig == v.Sig {
			return true
		}
	}
	return false
}

func cloneSpec(s *Spec) *Spec {
	b, _ := json.Marshal(s)
	n := &Spec{}
	json.Unmarshal(b, n)
	return n
}

func (b *build) minimiseAndReplay(prop string, g *vgroup) (path string, ok bool, note string) {
	race := g.first.spec.Params["race"] == "1"
	orig := g.first.spec
	best := cloneSpec(orig)
	// 1. materialise: explicit spec carrying the non-zero choices of the failing run
	if !orig.Explicit {
		full := b.runSpec(orig, race, "VERIF_CHOICES=1")
		if hasViolation(full, g.v) && len(full.Choices) >= 0 {
			ex := cloneSpec(orig)
			ex.Explicit = true
			ex.Overrides = map[string]int64{}
			for k, v := range full.Choices {
				ex.Overrides[k] = v
			}
			for k, v := range orig.Overrides {
				ex.Overrides[k] = v
			}
			ex.HotPermille, ex.Focus, ex.DelayClass = 0, "", ""
			r := b.runSpec(ex, race)
			if hasViolation(r, g.v) {
				best = ex
				best = b.ddmin(best, g.v, race)
				best = b.shrinkMagnitudes(best, g.v, race)
			} else {
				note = "explicit form did not reproduce; replay file keeps the seeded form"
			}
		}
	} else {
		best = b.ddmin(best, g.v, race)
	}
	// 2. write the replay file and replay it three times in fresh processes
	r0 := b.runSpec(best, race, "VERIF_LOG=1")
	rf := &ReplayFile{Property: prop, Tree: b.tree, Spec: best, Expect: Violation{Class: g.v.Class, Sig: g.v.Sig, Detail: firstN(g.v.Detail, 3000)}, LogHash: r0.LogHash, Race: race, Note: note}
	if len(r0.Log) > 400 {
		rf.History = r0.Log[len(r0.Log)-400:]
	} else {
		rf.History = r0.Log
	}
	os.MkdirAll(filepath.Join(outDir(), "replays"), 0o755)
	h := sha256.Sum256([]byte(g.v.Class + "|" + g.v.Sig))
	path = filepath.Join(outDir(), "replays", fmt.Sprintf("%s-%s-%x-%d.json", prop, g.v.Class, h[:4], best.Seed))
	js, _ := json.MarshalIndent(rf, "", " ")
	os.WriteFile(path, js, 0o644)
	ok = hasViolation(r0, g.v)
	if !ok {
		return path, false, "minimised spec did not reproduce the violation"
	}
	for i := 0; i < 3; i++ {
		r := b.runSpec(best, race)
		if !hasViolation(r, g.v) {
			return path, false, fmt.Sprintf("replay %d did not reproduce the violation", i+1)
		}
		if r.LogHash != r0.LogHash && !race {
			return path, false, fmt.Sprintf("replay %d reproduced the violation with a different event log (%s vs %s)", i+1, r.LogHash, r0.LogHash)
		}
	}
	return path, true, note
}

func (b *build) ddmin(s *Spec, v Violation, race bool) *Spec {
	keys := func(sp *Spec) []string {
		var ks []string
		for k := range sp.Overrides {
			if k != "runtime-seed" {
				ks = append(ks, k)
			}
		}
		sort.Strings(ks)
		return ks
	}
	cur := cloneSpec(s)
	budget := 400
	n := 2
	for len(keys(cur)) > 0 && budget > 0 {
		ks := keys(cur)
		if n > len(ks) {
			n = len(ks)
		}
		chunk := (len(ks) + n - 1) / n
		// candidates: complements of each chunk (remove one chunk)
		var cands []*Spec
		for i := 0; i < len(ks); i += chunk {
			c := cloneSpec(cur)
			end := i + chunk
			if end > len(ks) {
				end = len(ks)
			}
			for _, k := range ks[i:end] {
				delete(c.Overrides, k)
			}
			cands = append(cands, c)
		}
		// and the empty set first
		if n == 2 {
			c := cloneSpec(cur)
			for _, k := range ks {
				delete(c.Overrides, k)
			}
			cands = append([]*Spec{c}, cands...)
		}
		results := make([]*Result, len(cands))
		var wg sync.WaitGroup
		sem := make(chan struct{}, workers)
		for i, c := range cands {
			wg.Add(1)
			go func(i int, c *Spec) {
				defer wg.Done()
				sem <- struct{}{}
				results[i] = b.runSpec(c, race)
				<-sem
			}(i, c)
		}
		wg.Wait()
		budget -= len(cands)
		reduced := false
		for i, r := range results {
			if hasViolation(r, v) {
				cur = cands[i]
				reduced = true
				break
			}
		}
		if reduced {
			if n > 2 {
				n--
			}
			continue
		}
		if n >= len(ks) {
			break
		}
		n *= 2
	}
	return cur
}

func (b *build) shrinkMagnitudes(s *Spec, v Violation, race bool) *Spec {
	cur := cloneSpec(s)
	var ks []string
	for k, val := range cur.Overrides {
		if k != "runtime-seed" && val > 2 {
			ks = append(ks, k)
		}
	}
	sort.Strings(ks)
	if len(ks) > 12 {
		ks = ks[:12]
	}
	for _, k := range ks {
		for _, cand := range []int64{2, 1000, 1000000} {
			if cand >= cur.Overrides[k] {
				break
			}
			c := cloneSpec(cur)
			c.Overrides[k] = cand
			if hasViolation(b.runSpec(c, race), v) {
				cur = c
				break
			}
		}
	}
	return cur
}

// ---- replay ------------------------------------------------------------------------------

func cmdReplay(args []string) int {
	if len(args) < 1 {
		usage()
	}
	raw, err := os.ReadFile(args[0])
	if err != nil {
		fmt.Fprintln(os.Stderr, err)
		return 2
	}
	rf := &ReplayFile{}
	if err := json.Unmarshal(raw, rf); err != nil {
		fmt.Fprintln(os.Stderr, err)
		return 2
	}
	b, err := newBuild(rf.Race)
	if err != nil {
		fmt.Fprintln(os.Stderr, "BUILD-ERROR:", err)
		return 2
	}
	defer b.cleanup()
	r := b.runSpec(rf.Spec, rf.Race, "VERIF_LOG=1")
	for _, l := range r.Log {
		fmt.Println(l)
	}
	if r.infra != "" {
		fmt.Println("NO-VERDICT:", r.infra)
		return 2
	}
	fmt.Printf("replay: tree now %s (file written for %s); loghash %s (file %s)\n", b.tree, rf.Tree, r.LogHash, rf.LogHash)
	if hasViolation(r, rf.Expect) {
		for _, v := range r.Violations {
			fmt.Printf("VIOLATION property=%s replay=%s\n  class=%s sig=%s\n  %s\n", rf.Property, args[0], v.Class, v.Sig, indent(firstN(v.Detail, 3000)))
		}
		return 1
	}
	fmt.Println("replay: the recorded violation did not occur on this tree")
	for _, v := range r.Violations {
		fmt.Printf("  other violation: class=%s sig=%s\n", v.Class, v.Sig)
	}
	return 0
}

func cmdRun(args []string) int {
	if len(args) < 1 {
		usage()
	}
	raw, err := os.ReadFile(args[0])
	if err != nil {
		raw = []byte(args[0])
	}
	s := &Spec{}
	if err := json.Unmarshal(raw, s); err != nil {
		fmt.Fprintln(os.Stderr, err)
		return 2
	}
	b, err := newBuild(s.Params["race"] == "1")
	if err != nil {
		fmt.Fprintln(os.Stderr, "BUILD-ERROR:", err)
		return 2
	}
	defer b.cleanup()
	r := b.runSpec(s, s.Params["race"] == "1", "VERIF_LOG=1", "VERIF_CHOICES=1")
	for _, l := range r.Log {
		fmt.Println(l)
	}
	r.Log = nil
	js, _ := json.MarshalIndent(r, "", " ")
	fmt.Println(string(js))
	if r.infra != "" {
		fmt.Println("NO-VERDICT:", r.infra)
		fmt.Println(r.stderr)
	} else if os.Getenv("VERIF_SHOW_STDERR") != "" {
		fmt.Println(r.stderr)
	}
	return 0
}

// ---- determinism self-test -----------------------------------------------------------------

func cmdSelftest(args []string) int {
	if len(args) < 1 || args[0] != "determinism" {
		usage()
	}
	fs := flag.NewFlagSet("selftest", flag.ExitOnError)
	nseeds := fs.Int("seeds", 12, "seeds per configuration")
	reps := fs.Int("reps", 4, "fresh processes per (configuration, seed)")
	props := fs.String("props", "S00", "comma separated workloads")
	tier := fs.String("tier", "selftest", "tier whose plan is sampled (selftest: a handful of cells per property; quick: every cell of the quick plan)")
	fs.Parse(args[1:])
	b, err := newBuild(false)
	if err != nil {
		fmt.Fprintln(os.Stderr, "BUILD-ERROR:", err)
		return 2
	}
	defer b.cleanup()
	total, bad, groups := 0, 0, 0
	for _, prop := range strings.Split(*props, ",") {
		for _, wc := range []int{1, 4, 16} {
			workers = wc
			var specs []*Spec
			for sd := 0; sd < *nseeds; sd++ {
				base, err := b.plan(prop, *tier, uint64(1000*wc+sd), 0, nil)
				if err != nil {
					fmt.Fprintln(os.Stderr, "BUILD-ERROR:", err)
					return 2
				}
				// pick a few configurations per seed, add schedule noise and faults
				for i, s := range base {
					if (i+sd)%3 != 0 {
						continue
					}
					s.Seed = uint64(1000*wc+sd)*7919 + uint64(i)
					if s.HotPermille == 0 {
						s.HotPermille = 60
					}
					if s.DelayClass == "" {
						s.DelayClass = []string{"tiny", "mid", "big"}[sd%3]
					}
					if s.Faults == "" {
						s.Faults = "conn.latency,conn.chunk,pipe.chunk"
					}
					for r := 0; r < *reps; r++ {
						specs = append(specs, s)
					}
				}
			}
			hashes := map[string]map[string]int{}
			b.runAll(specs, false, time.Time{}, 0, func(r *Result) {
				total++
				key := fmt.Sprintf("%s|%s|%d", r.Prop, r.Case, r.Seed)
				if hashes[key] == nil {
					hashes[key] = map[string]int{}
				}
				h := r.LogHash + "/" + r.Verdict + "/" + strconv.Itoa(r.Events)
				if r.infra != "" {
					h = "NO-VERDICT " + firstN(r.infra, 200)
				}
				hashes[key][h]++
			})
			for key, m := range hashes {
				groups++
				if len(m) != 1 {
					bad++
					fmt.Printf("DIVERGENCE workers=%d %s: %v\n", wc, key, m)
				}
				for h := range m {
					if strings.HasPrefix(h, "NO-VERDICT") {
						bad++
						fmt.Printf("NO-VERDICT workers=%d %s: %s\n", wc, key, h)
					}
				}
			}
		}
	}
	fmt.Printf("selftest determinism: %d runs in %d (configuration, seed) groups at worker counts 1/4/16; %d divergent\n", total, groups, bad)
	os.MkdirAll(filepath.Join(verifDir, "evidence"), 0o755)
	js, _ := json.MarshalIndent(map[string]any{"runs": total, "groups": groups, "divergent": bad, "reps": *reps, "worker_counts": []int{1, 4, 16}, "tree": b.tree}, "", " ")
	os.WriteFile(filepath.Join(verifDir, "evidence", "determinism.json"), js, 0o644)
	if bad > 0 {
		return 2
	}
	return 0
}

// ---- evidence -------------------------------------------------------------------------------

func writeEvidence(prop, tier string, seed uint64, meta *Meta, b *build, all []*Result, groups map[string]*vgroup, evals, planned, infra int, truncated bool, wall time.Duration) {
	distinct := map[string]bool{}
	faults := map[string]int{}
	probes := map[string]int{}
	var simNS int64
	var samples []any
	cases := map[string]bool{}
	sites := map[string]bool{}
	var minSeed, maxSeed uint64
	for i, r := range all {
		if r.infra != "" {
			continue
		}
		if r.Nontrivial {
			distinct[r.SchedSig] = true
		}
		for k, v := range r.Faults {
			faults[k] += v
		}
		for k, v := range r.Probes {
			probes[k] += v
		}
		simNS += r.SimNS
		cases[r.Case] = true
		for k := range r.SitePass {
			sites[k] = true
		}
		if i == 0 || r.Seed < minSeed {
			minSeed = r.Seed
		}
		if r.Seed > maxSeed {
			maxSeed = r.Seed
		}
		if len(samples) < 3 && len(r.Sample) > 0 && (r.Nontrivial || len(samples) == 0) {
			samples = append(samples, map[string]any{"case": r.Case, "seed": r.Seed, "spec": r.spec, "verdict": r.Verdict, "first_events": r.Sample})
		}
	}
	if len(samples) == 0 {
		for _, r := range all {
			if r.infra == "" {
				samples = append(samples, map[string]any{"case": r.Case, "seed": r.Seed, "spec": r.spec, "verdict": r.Verdict})
				break
			}
		}
	}
	nviol := 0
	var known []string
	var vlist []map[string]any
	for _, g := range groups {
		if g.known != nil {
			known = append(known, g.v.Class+" "+g.v.Sig)
			continue
		}
		nviol++
		vlist = append(vlist, map[string]any{"class": g.v.Class, "sig": g.v.Sig, "runs": g.count, "replay": g.replay})
	}
	sort.Strings(known)
	zeroProbes := []string{}
	for k, v := range probes {
		if v == 0 {
			zeroProbes = append(zeroProbes, k)
		}
	}
	hours := wall.Hours()
	cov := map[string]any{
		"evaluations":             evals,
		"distinct_nontrivial":     len(distinct),
		"rule":                    meta.Rule + " | distinct_nontrivial = number of distinct schedule signatures (hash of the ordered sequence of kernel events: process, kind, object - spawn/exit/signals, listen/accept/dial/close, every socket and pipe write, harness invoke/return) among runs in which at least one fault, trigger or non-default choice (delay, yield, generated operation) fired",
		"samples":                 samples,
		"planned_runs":            planned,
		"truncated_by_budget":     truncated,
		"runs_without_verdict":    infra,
		"runs_per_hour":           int(float64(evals) / hours),
		"seeds":                   map[string]uint64{"min": minSeed, "max": maxSeed},
		"distinct_cases":          len(cases),
		"simulated_seconds_total": float64(simNS) / 1e9,
		"faults_fired":            faults,
		"probes":                  probes,
		"probes_zero":             zeroProbes,
		"components":              meta.Components,
		"known_findings_matched":  known,
		"new_violations":          vlist,
		"tree":                    b.tree,
		"race_detector":           meta.Race,
	}
	if meta.Exhaustive != "" && !truncated {
		cov["exhaustive"] = true
		cov["exhaustive_space"] = meta.Exhaustive
	}
	if dj, err := os.ReadFile(filepath.Join(verifDir, "evidence", "determinism.json")); err == nil {
		var d any
		if json.Unmarshal(dj, &d) == nil {
			cov["determinism_selftest"] = d
		}
	}
	ev := map[string]any{
		"property_id": prop,
		"tier":        tier,
		"seed":        seed,
		"level":       meta.Level,
		"coverage":    cov,
		"assumptions": meta.Assumptions,
		"wall_s":      wall.Seconds(),
		"violations":  nviol,
	}
	os.MkdirAll(filepath.Join(outDir(), "evidence"), 0o755)
	js, _ := json.MarshalIndent(ev, "", " ")
	os.WriteFile(filepath.Join(outDir(), "evidence", prop+".json"), js, 0o644)
}
