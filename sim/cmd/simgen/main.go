// simgen copies the working tree of hashicorp/go-plugin into a scratch
// directory as package tree "simworld/goplugin/...", redirecting the imports
// through which the code reaches the operating system to the simulator's
// shims, turning the process-global os.Std*/os.Args/runtime.GOOS into
// per-process accessors, weaving a schedule point before every statement and
// a panic trap around every go statement. No expression of go-plugin's own
// logic is edited.
//
// usage: simgen <repo> <outdir>     (outdir becomes .../goplugin)
package main

import (
	"bytes"
	"encoding/json"
	"fmt"
	"go/ast"
	"go/format"
	"go/parser"
	"go/token"
	"os"
	"path/filepath"
	"sort"
	"strconv"
	"strings"
)

const selfMod = "github.com/hashicorp/go-plugin"
const newRoot = "simworld/goplugin"

var redirect = map[string]string{
	"os":        "simworld/shim/simos",
	"net":       "simworld/shim/simnet",
	"os/exec":   "simworld/shim/simexec",
	"os/signal": "simworld/shim/simsignal",
	"os/user":   "simworld/shim/simuser",
	"fmt":       "simworld/shim/simfmt",
	"log":       "simworld/shim/simlog",
	"runtime":   "simworld/shim/simruntime",
}

var defaultName = map[string]string{
	"os": "os", "net": "net", "os/exec": "exec", "os/signal": "signal", "os/user": "user",
	"fmt": "fmt", "log": "log", "runtime": "runtime",
}

// accessor rewrites: pkg(local name of import path).Sel -> pkg.Get<Sel>() / pkg.Set<Sel>(v)
var accessors = map[string]map[string]bool{
	"os":      {"Stdin": true, "Stdout": true, "Stderr": true, "Args": true},
	"runtime": {"GOOS": true},
}

type siteInfo struct {
	Site string `json:"site"`
	File string `json:"file"`
	Line int    `json:"line"`
}

var sites []siteInfo

func die(format string, a ...any) {
	fmt.Fprintf(os.Stderr, "simgen: "+format+"\n", a...)
	os.Exit(2)
}

func main() {
	if len(os.Args) != 3 {
		die("usage: simgen <repo> <outdir>")
	}
	repo, out := os.Args[1], os.Args[2]
	var files []string
	err := filepath.Walk(repo, func(p string, info os.FileInfo, err error) error {
		if err != nil {
			return err
		}
		rel, _ := filepath.Rel(repo, p)
		if info.IsDir() {
			base := filepath.Base(p)
			if rel != "." && (strings.HasPrefix(base, ".") || base == "examples" || base == "docs" || base == "testdata" || base == "vendor") {
				return filepath.SkipDir
			}
			return nil
		}
		if strings.HasSuffix(p, ".go") && !strings.HasSuffix(p, "_test.go") {
			files = append(files, rel)
		}
		return nil
	})
	if err != nil {
		die("walk: %v", err)
	}
	sort.Strings(files)
	for _, rel := range files {
		src, err := os.ReadFile(filepath.Join(repo, rel))
		if err != nil {
			die("%v", err)
		}
		res, err := rewrite(rel, src)
		if err != nil {
			die("%s: %v", rel, err)
		}
		dst := filepath.Join(out, rel)
		os.MkdirAll(filepath.Dir(dst), 0o755)
		if err := os.WriteFile(dst, res, 0o644); err != nil {
			die("%v", err)
		}
	}
	// export_test.go-style access for component-level scenarios: the harness
	// builds yamux sessions with a configuration of its own and puts real
	// MuxBrokers on them (written into the rewritten copy only)
	os.WriteFile(filepath.Join(out, "zz_sim_export.go"), []byte(`package plugin

import (
	"net"

	"github.com/hashicorp/yamux"
	"simworld/goplugin/internal/cmdrunner"
	"simworld/goplugin/runner"
)

// NewMuxBrokerForSim is newMuxBroker, for the simulator's harness.
func NewMuxBrokerForSim(s *yamux.Session) *MuxBroker { return newMuxBroker(s) }

// ReattachFuncForSim is cmdrunner.ReattachFunc (an internal package the
// harness cannot import): the value a host keeps and uses more than once.
func ReattachFuncForSim(pid int, addr net.Addr) runner.ReattachFunc {
	return cmdrunner.ReattachFunc(pid, addr)
}
`), 0o644)
	b, _ := json.MarshalIndent(sites, "", " ")
	os.WriteFile(filepath.Join(out, "sites.json"), b, 0o644)
	fmt.Printf("simgen: %d files, %d schedule points\n", len(files), len(sites))
}

type rewriter struct {
	fset  *token.FileSet
	file  string
	local map[string]string // local import name -> original import path (only redirected ones)
	fn    string
	n     int
	weave bool
	usedK bool
	tmpN  int
	errs  []string
}

func rewrite(rel string, src []byte) ([]byte, error) {
	fset := token.NewFileSet()
	f, err := parser.ParseFile(fset, rel, src, parser.ParseComments)
	if err != nil {
		return nil, err
	}
	// keep only the comments before the package clause (build constraints)
	var keep []*ast.CommentGroup
	for _, cg := range f.Comments {
		if cg.End() < f.Package {
			keep = append(keep, cg)
		}
	}
	f.Comments = keep
	f.Doc = nil
	r := &rewriter{fset: fset, file: rel, local: map[string]string{}}
	r.weave = !strings.HasSuffix(rel, ".pb.go")

	for _, imp := range f.Imports {
		p, _ := strconv.Unquote(imp.Path.Value)
		if to, ok := redirect[p]; ok {
			name := defaultName[p]
			if imp.Name != nil {
				name = imp.Name.Name
			} else {
				imp.Name = ast.NewIdent(name)
			}
			if name != "_" && name != "." {
				r.local[name] = p
			}
			imp.Path.Value = strconv.Quote(to)
			imp.Comment, imp.Doc = nil, nil
		} else if p == selfMod || strings.HasPrefix(p, selfMod+"/") {
			if imp.Name == nil && p == selfMod {
				imp.Name = ast.NewIdent("plugin")
			}
			imp.Path.Value = strconv.Quote(newRoot + strings.TrimPrefix(p, selfMod))
		}
	}

	for _, d := range f.Decls {
		switch d := d.(type) {
		case *ast.FuncDecl:
			d.Doc = nil
			if d.Body == nil {
				continue
			}
			r.fn = d.Name.Name
			if d.Recv != nil && len(d.Recv.List) > 0 {
				r.fn = recvName(d.Recv.List[0].Type) + "." + d.Name.Name
			}
			r.n = 0
			r.block(d.Body)
		case *ast.GenDecl:
			d.Doc = nil
			r.fn = "init"
			for _, s := range d.Specs {
				switch s := s.(type) {
				case *ast.ValueSpec:
					s.Doc, s.Comment = nil, nil
					for i := range s.Values {
						s.Values[i] = r.expr(s.Values[i])
					}
				case *ast.TypeSpec:
					s.Doc, s.Comment = nil, nil
				}
			}
		}
	}
	if len(r.errs) > 0 {
		return nil, fmt.Errorf("%s", strings.Join(r.errs, "; "))
	}
	if r.usedK {
		addImport(f, "simk", "simworld/k")
	}
	stripFieldComments(f)
	var buf bytes.Buffer
	if err := format.Node(&buf, fset, f); err != nil {
		return nil, err
	}
	return buf.Bytes(), nil
}

func stripFieldComments(f *ast.File) {
	ast.Inspect(f, func(n ast.Node) bool {
		switch n := n.(type) {
		case *ast.Field:
			n.Doc, n.Comment = nil, nil
		case *ast.ImportSpec:
			n.Doc, n.Comment = nil, nil
		}
		return true
	})
}

func recvName(e ast.Expr) string {
	switch t := e.(type) {
	case *ast.StarExpr:
		return recvName(t.X)
	case *ast.Ident:
		return t.Name
	case *ast.IndexExpr:
		return recvName(t.X)
	}
	return "?"
}

func addImport(f *ast.File, name, path string) {
	spec := &ast.ImportSpec{Name: ast.NewIdent(name), Path: &ast.BasicLit{Kind: token.STRING, Value: strconv.Quote(path)}}
	for _, d := range f.Decls {
		if g, ok := d.(*ast.GenDecl); ok && g.Tok == token.IMPORT {
			g.Specs = append(g.Specs, spec)
			if !g.Lparen.IsValid() {
				g.Lparen = g.Pos()
				g.Rparen = g.End()
			}
			f.Imports = append(f.Imports, spec)
			return
		}
	}
	g := &ast.GenDecl{Tok: token.IMPORT, Specs: []ast.Spec{spec}}
	f.Decls = append([]ast.Decl{g}, f.Decls...)
	f.Imports = append(f.Imports, spec)
}

func (r *rewriter) yield(pos token.Pos) ast.Stmt {
	r.n++
	site := fmt.Sprintf("%s:%s#%d", r.file, r.fn, r.n)
	line := 0
	if pos.IsValid() {
		line = r.fset.Position(pos).Line
	}
	sites = append(sites, siteInfo{Site: site, File: r.file, Line: line})
	r.usedK = true
	return &ast.ExprStmt{X: &ast.CallExpr{
		Fun:  &ast.SelectorExpr{X: ast.NewIdent("simk"), Sel: ast.NewIdent("Y")},
		Args: []ast.Expr{&ast.BasicLit{Kind: token.STRING, Value: strconv.Quote(site)}},
	}}
}

func (r *rewriter) block(b *ast.BlockStmt) {
	if b == nil {
		return
	}
	b.List = r.stmts(b.List)
}

func (r *rewriter) stmts(list []ast.Stmt) []ast.Stmt {
	var out []ast.Stmt
	for _, s := range list {
		if r.weave {
			if _, isDecl := s.(*ast.DeclStmt); !isDecl {
				out = append(out, r.yield(s.Pos()))
			}
		}
		out = append(out, r.stmt(s))
	}
	return out
}

func (r *rewriter) stmt(s ast.Stmt) ast.Stmt {
	switch s := s.(type) {
	case *ast.BlockStmt:
		r.block(s)
	case *ast.ExprStmt:
		s.X = r.expr(s.X)
	case *ast.SendStmt:
		s.Chan, s.Value = r.expr(s.Chan), r.expr(s.Value)
	case *ast.IncDecStmt:
		s.X = r.expr(s.X)
	case *ast.AssignStmt:
		// os.Stdout = v  ->  os.SetStdout(v)
		if len(s.Lhs) == 1 && len(s.Rhs) == 1 && s.Tok == token.ASSIGN {
			if pkg, sel, ok := r.accessor(s.Lhs[0]); ok {
				return &ast.ExprStmt{X: &ast.CallExpr{
					Fun:  &ast.SelectorExpr{X: ast.NewIdent(pkg), Sel: ast.NewIdent("Set" + sel)},
					Args: []ast.Expr{r.expr(s.Rhs[0])},
				}}
			}
		}
		for i := range s.Lhs {
			if _, _, ok := r.accessor(s.Lhs[i]); ok {
				r.errs = append(r.errs, fmt.Sprintf("%s: unsupported assignment to a process-global", r.fset.Position(s.Pos())))
			}
			s.Lhs[i] = r.expr(s.Lhs[i])
		}
		for i := range s.Rhs {
			s.Rhs[i] = r.expr(s.Rhs[i])
		}
	case *ast.GoStmt:
		return r.goStmt(s)
	case *ast.DeferStmt:
		s.Call = r.expr(s.Call).(*ast.CallExpr)
	case *ast.ReturnStmt:
		for i := range s.Results {
			s.Results[i] = r.expr(s.Results[i])
		}
	case *ast.IfStmt:
		if s.Init != nil {
			s.Init = r.stmt(s.Init)
		}
		s.Cond = r.expr(s.Cond)
		r.block(s.Body)
		if s.Else != nil {
			s.Else = r.stmt(s.Else)
		}
	case *ast.ForStmt:
		if s.Init != nil {
			s.Init = r.stmt(s.Init)
		}
		if s.Cond != nil {
			s.Cond = r.expr(s.Cond)
		}
		if s.Post != nil {
			s.Post = r.stmt(s.Post)
		}
		r.block(s.Body)
	case *ast.RangeStmt:
		s.X = r.expr(s.X)
		r.block(s.Body)
	case *ast.SwitchStmt:
		if s.Init != nil {
			s.Init = r.stmt(s.Init)
		}
		if s.Tag != nil {
			s.Tag = r.expr(s.Tag)
		}
		for _, c := range s.Body.List {
			cc := c.(*ast.CaseClause)
			for i := range cc.List {
				cc.List[i] = r.expr(cc.List[i])
			}
			cc.Body = r.stmts(cc.Body)
		}
	case *ast.TypeSwitchStmt:
		if s.Init != nil {
			s.Init = r.stmt(s.Init)
		}
		s.Assign = r.stmt(s.Assign)
		for _, c := range s.Body.List {
			cc := c.(*ast.CaseClause)
			cc.Body = r.stmts(cc.Body)
		}
	case *ast.SelectStmt:
		for _, c := range s.Body.List {
			cc := c.(*ast.CommClause)
			if cc.Comm != nil {
				cc.Comm = r.stmt(cc.Comm)
			}
			cc.Body = r.stmts(cc.Body)
		}
	case *ast.LabeledStmt:
		s.Stmt = r.stmt(s.Stmt)
	case *ast.DeclStmt:
		if g, ok := s.Decl.(*ast.GenDecl); ok {
			for _, sp := range g.Specs {
				if vs, ok := sp.(*ast.ValueSpec); ok {
					for i := range vs.Values {
						vs.Values[i] = r.expr(vs.Values[i])
					}
				}
			}
		}
	}
	return s
}

// accessor reports whether e is pkg.Sel for one of the process-global
// variables that become accessor calls.
func (r *rewriter) accessor(e ast.Expr) (pkg, sel string, ok bool) {
	se, isSel := e.(*ast.SelectorExpr)
	if !isSel {
		return
	}
	id, isId := se.X.(*ast.Ident)
	if !isId || id.Obj != nil {
		return
	}
	orig, redirected := r.local[id.Name]
	if !redirected {
		return
	}
	if accessors[orig][se.Sel.Name] {
		return id.Name, se.Sel.Name, true
	}
	return
}

func (r *rewriter) expr(e ast.Expr) ast.Expr {
	if e == nil {
		return nil
	}
	switch e := e.(type) {
	case *ast.SelectorExpr:
		if pkg, sel, ok := r.accessor(e); ok {
			return &ast.CallExpr{Fun: &ast.SelectorExpr{X: ast.NewIdent(pkg), Sel: ast.NewIdent("Get" + sel)}}
		}
		e.X = r.expr(e.X)
	case *ast.CallExpr:
		e.Fun = r.expr(e.Fun)
		for i := range e.Args {
			e.Args[i] = r.expr(e.Args[i])
		}
	case *ast.FuncLit:
		saveFn, saveN := r.fn, r.n
		r.block(e.Body)
		r.fn = saveFn
		_ = saveN
	case *ast.ParenExpr:
		e.X = r.expr(e.X)
	case *ast.UnaryExpr:
		if e.Op == token.AND {
			if _, _, ok := r.accessor(e.X); ok {
				r.errs = append(r.errs, fmt.Sprintf("%s: address of a process-global is not supported", r.fset.Position(e.Pos())))
			}
		}
		e.X = r.expr(e.X)
	case *ast.BinaryExpr:
		e.X, e.Y = r.expr(e.X), r.expr(e.Y)
	case *ast.StarExpr:
		e.X = r.expr(e.X)
	case *ast.IndexExpr:
		e.X, e.Index = r.expr(e.X), r.expr(e.Index)
	case *ast.SliceExpr:
		e.X, e.Low, e.High, e.Max = r.expr(e.X), r.expr(e.Low), r.expr(e.High), r.expr(e.Max)
	case *ast.TypeAssertExpr:
		e.X = r.expr(e.X)
	case *ast.KeyValueExpr:
		e.Value = r.expr(e.Value)
		if _, isIdent := e.Key.(*ast.Ident); !isIdent {
			e.Key = r.expr(e.Key)
		}
	case *ast.CompositeLit:
		for i := range e.Elts {
			e.Elts[i] = r.expr(e.Elts[i])
		}
	}
	return e
}

func inlineable(e ast.Expr) bool {
	switch e := e.(type) {
	case *ast.BasicLit:
		return true
	case *ast.Ident:
		return e.Name == "nil" || e.Name == "true" || e.Name == "false"
	}
	return false
}

// goStmt turns `go f(a, b)` into
//
//	{ simF := f; simA0 := a; simA1 := b; go simk.Trap(func() { simF(simA0, simA1) }) }
//
// which evaluates the function value and the arguments at the go statement,
// as the language requires, and runs the call under the panic trap.
func (r *rewriter) goStmt(s *ast.GoStmt) ast.Stmt {
	call := r.expr(s.Call).(*ast.CallExpr)
	r.usedK = true
	trap := func(body ast.Expr) *ast.GoStmt {
		return &ast.GoStmt{Call: &ast.CallExpr{
			Fun:  &ast.SelectorExpr{X: ast.NewIdent("simk"), Sel: ast.NewIdent("Trap")},
			Args: []ast.Expr{body},
		}}
	}
	if fl, ok := call.Fun.(*ast.FuncLit); ok && len(call.Args) == 0 && (fl.Type.Results == nil || len(fl.Type.Results.List) == 0) {
		return trap(fl)
	}
	r.tmpN++
	pre := fmt.Sprintf("sim%d", r.tmpN)
	var init []ast.Stmt
	fn := call.Fun
	if _, isLit := fn.(*ast.FuncLit); !isLit {
		init = append(init, &ast.AssignStmt{Lhs: []ast.Expr{ast.NewIdent(pre + "F")}, Tok: token.DEFINE, Rhs: []ast.Expr{fn}})
		fn = ast.NewIdent(pre + "F")
	}
	var args []ast.Expr
	for i, a := range call.Args {
		if inlineable(a) {
			args = append(args, a)
			continue
		}
		name := fmt.Sprintf("%sA%d", pre, i)
		init = append(init, &ast.AssignStmt{Lhs: []ast.Expr{ast.NewIdent(name)}, Tok: token.DEFINE, Rhs: []ast.Expr{a}})
		args = append(args, ast.NewIdent(name))
	}
	inner := &ast.CallExpr{Fun: fn, Args: args, Ellipsis: call.Ellipsis}
	if call.Ellipsis.IsValid() {
		inner.Ellipsis = 1
	}
	lit := &ast.FuncLit{Type: &ast.FuncType{Params: &ast.FieldList{}}, Body: &ast.BlockStmt{List: []ast.Stmt{&ast.ExprStmt{X: inner}}}}
	return &ast.BlockStmt{List: append(init, trap(lit))}
}
