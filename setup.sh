#!/bin/bash
# Run once after a fresh restore, offline: generate the runtime overlay, warm
# the build cache, build the driver, and prove the simulator deterministic on a
# short sample before any check is believed.
D=$(cd "$(dirname "$0")" && pwd); cd "$D" || exit 2; export VERIF_DIR="$D"
export GOFLAGS=-mod=mod GOPROXY=off GOSUMDB=off GOTOOLCHAIN=local
export GOCACHE=${VERIF_GOCACHE:-/var/tmp/verif-gocache}
mkdir -p bin
(cd sim && /opt/veriftools/go1.26.8/bin/go build -o /verif/bin/verif ./cmd/verif) || { echo "setup: driver build failed" >&2; exit 2; }
B=$(mktemp -d /var/tmp/verif-setup.XXXX)
./build_worker.sh "$B" || { rm -rf "$B"; exit 2; }
./build_worker.sh "$B" race || { rm -rf "$B"; exit 2; }
rm -rf "$B"
# stub fidelity: the same micro-scenarios on the real OS and on the simulated kernel must agree
(cd sim && /opt/veriftools/go1.26.8/bin/go test -count=1 -overlay /var/tmp/verif-overlay/overlay.json ./fidelity) || { echo "setup: kernel fidelity self-test failed" >&2; exit 2; }
bin/verif selftest determinism --seeds 5 --reps 4 --props S00,C03,C06,C07,C09 || exit 2
echo "setup: ok"
