#!/bin/bash
# usage: mutant.sh <patch.diff> <Cnn> [tier]
# Applies a patch to a scratch copy of /repo (never to /repo itself), runs the
# property's check against the copy, and reports whether it was caught.
set -u
PATCH=$(readlink -f "$1"); PROP="$2"; TIER="${3:-quick}"
S=$(mktemp -d /var/tmp/verif-mutant.XXXX)
trap 'rm -rf "$S"' EXIT
mkdir -p "$S/repo" "$S/out"
(cd /repo && git ls-files -z | xargs -0 cp --parents -t "$S/repo") || exit 2
(cd "$S/repo" && patch -p1 -s < "$PATCH") || { echo "MUTANT-ERROR: patch does not apply: $PATCH"; exit 2; }
(cd "$S/repo" && GOFLAGS=-mod=mod go build ./... ) || { echo "MUTANT-ERROR: mutant does not compile"; exit 2; }
VERIF_REPO="$S/repo" VERIF_OUT="$S/out" /verif/check.sh "$PROP" "$TIER" > "$S/log" 2>&1
rc=$?
grep -E "^VIOLATION|^KNOWN-FINDING|class=" "$S/log" | head -6
echo "mutant $(basename "$PATCH") vs $PROP ($TIER): exit=$rc $( [ $rc = 1 ] && echo CAUGHT || echo MISSED )"
exit 0
