#!/bin/bash
# usage: seed_eval.sh <Cnn> <agent-worktree> <name>
# Confirms a seeded change independently in a fresh scratch copy of /repo:
# the suite passes with it, the demonstration fails with it and passes without;
# stores it under /verif/seeded/<name>/ and runs the property's check on it.
set -u
PROP="$1"; WT="$2"; NAME="$3"
export GOFLAGS=-mod=mod GOPROXY=off
D=/verif/seeded/$NAME; mkdir -p "$D"
cp "$WT/SEEDED.diff" "$D/patch.diff" || exit 2
cp "$WT/SEEDED.md" "$D/SEEDED.md" 2>/dev/null
DEMOS=$(cd "$WT" && git status --porcelain | grep '^??' | awk '{print $2}' | grep -v '^SEEDED' )
for f in $DEMOS; do mkdir -p "$D/demo/$(dirname $f)"; cp -r "$WT/$f" "$D/demo/$f"; done
S=$(mktemp -d /var/tmp/verif-seed.XXXX); trap 'rm -rf "$S"' EXIT
mkdir -p "$S/with" "$S/without"
(cd /repo && git ls-files -z | xargs -0 cp --parents -t "$S/with"); (cd /repo && git ls-files -z | xargs -0 cp --parents -t "$S/without")
(cd "$S/with" && patch -p1 -s < "$D/patch.diff") || { echo "SEED-ERROR: patch does not apply"; exit 2; }
cp -r "$D/demo/." "$S/with/"; cp -r "$D/demo/." "$S/without/"
cd "$S/with" && go build ./... || { echo "SEED-ERROR: does not compile"; exit 2; }
demo_with=$(cd "$S/with" && go test -vet=off -count=1 -run 'Seeded|seeded|SEEDED' . 2>&1 | grep -v WARN | grep -E "^(ok|FAIL|--- FAIL)" | tr '\n' ' ')
demo_without=$(cd "$S/without" && go test -vet=off -count=1 -run 'Seeded|seeded|SEEDED' . 2>&1 | grep -v WARN | grep -E "^(ok|FAIL|--- FAIL)" | tr '\n' ' ')
suite=""
for i in 1 2 3; do
  suite=$(cd "$S/with" && go test -vet=off -count=1 -skip 'Seeded|seeded|SEEDED' ./... 2>&1 | grep -v WARN | grep -E "^(FAIL|--- FAIL)" | tr '\n' ' ')
  [ -z "$suite" ] && break
done
echo "demo with change:    $demo_with"
echo "demo without change: $demo_without"
echo "suite with change:   ${suite:-ok}"
chk=$(/verif/mutant.sh "$D/patch.diff" "$PROP" 2>&1)
echo "$chk" | tail -4
python3 - "$D" "$PROP" "$demo_with" "$demo_without" "${suite:-ok}" "$(echo "$chk" | tail -1)" <<'PY'
import json,sys
d,prop,dw,dwo,suite,chk=sys.argv[1:7]
json.dump({"property":prop,"demo_with_change":dw,"demo_without_change":dwo,"existing_suite_with_change":suite,"check_result":chk,
  "needs":open(d+"/SEEDED.md").read()[:1500] if __import__('os').path.exists(d+"/SEEDED.md") else ""},open(d+"/meta.json","w"),indent=1)
PY
